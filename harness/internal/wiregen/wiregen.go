// Package wiregen builds a corpus of valid BGP messages with internal/wire and applies typed
// mutations to them (length-field edits, truncation, splices, flag flips, count inflation,
// boundary prefix lengths, family swaps). It imports nothing from bio-rd.
package wiregen

import (
	"encoding/binary"
	"math/rand/v2"

	"verifharness/internal/wire"
)

// Item is one valid message of the corpus.
type Item struct {
	Name string
	Raw  []byte
	Opts wire.Options // options under which an UPDATE was encoded
}

func randNLRI(rng *rand.Rand, v4 bool) wire.NLRI {
	if v4 {
		ls := []uint8{0, 1, 7, 8, 9, 16, 23, 24, 25, 31, 32}
		return wire.FromBits(true, rng.Uint64(), 0, ls[rng.IntN(len(ls))]).WithID(rng.Uint32())
	}
	ls := []uint8{0, 1, 8, 32, 47, 48, 63, 64, 65, 96, 127, 128}
	return wire.FromBits(false, rng.Uint64(), rng.Uint64(), ls[rng.IntN(len(ls))]).WithID(rng.Uint32())
}

func nlris(rng *rand.Rand, v4 bool, n int) []wire.NLRI {
	out := make([]wire.NLRI, n)
	for i := range out {
		out[i] = randNLRI(rng, v4)
	}
	return out
}

func u32s(rng *rand.Rand, n int) []uint32 {
	out := make([]uint32, n)
	for i := range out {
		out[i] = rng.Uint32()
	}
	return out
}

// RandAttrs draws a full attribute set (without MP attributes).
func RandAttrs(rng *rand.Rand) *wire.PathAttrs {
	p := &wire.PathAttrs{Origin: wire.U8(uint8(rng.IntN(3))), HasASPath: true, NextHop: []byte{10, byte(rng.IntN(256)), 0, 1}}
	for s, ns := 0, rng.IntN(4); s < ns; s++ {
		p.ASPath = append(p.ASPath, wire.Segment{Type: uint8(1 + rng.IntN(2)), ASNs: u32s(rng, 1+rng.IntN(6))})
	}
	if rng.IntN(2) == 0 {
		p.MED = wire.U32(rng.Uint32())
	}
	if rng.IntN(2) == 0 {
		p.LocalPref = wire.U32(rng.Uint32())
	}
	p.AtomicAggregate = rng.IntN(3) == 0
	if rng.IntN(3) == 0 {
		p.Aggregator = &wire.Aggregator{AS: rng.Uint32(), Addr: [4]byte{1, 2, 3, 4}}
	}
	if rng.IntN(2) == 0 {
		p.Communities = u32s(rng, 1+rng.IntN(5))
	}
	if rng.IntN(3) == 0 {
		p.OriginatorID = wire.U32(rng.Uint32())
		p.ClusterList = u32s(rng, 1+rng.IntN(4))
	}
	if rng.IntN(3) == 0 {
		for i, n := 0, 1+rng.IntN(3); i < n; i++ {
			p.LargeCommunities = append(p.LargeCommunities, wire.LargeCommunity{Global: rng.Uint32(), Local1: rng.Uint32(), Local2: rng.Uint32()})
		}
	}
	if rng.IntN(4) == 0 {
		p.OTC = wire.U32(rng.Uint32())
	}
	if rng.IntN(5) == 0 {
		p.HasAS4Path = true
		p.AS4Path = []wire.Segment{{Type: 2, ASNs: u32s(rng, 1+rng.IntN(4))}}
	}
	if rng.IntN(5) == 0 {
		p.AS4Aggregator = &wire.Aggregator{AS: rng.Uint32(), Addr: [4]byte{4, 3, 2, 1}}
	}
	if rng.IntN(3) == 0 {
		v := make([]byte, rng.IntN(12))
		for i := range v {
			v[i] = byte(rng.IntN(256))
		}
		if rng.IntN(6) == 0 {
			v = make([]byte, 256+rng.IntN(300))
		}
		p.Unknown = append(p.Unknown, wire.Attr{Flags: 0xc0, Type: uint8(100 + rng.IntN(100)), Value: v})
	}
	return p
}

func allOpts() []wire.Options {
	var out []wire.Options
	for i := 0; i < 8; i++ {
		out = append(out, wire.Options{AS4: i&1 != 0, AddPathIPv4: i&2 != 0, AddPathIPv6: i&4 != 0})
	}
	return out
}

// Corpus returns valid OPEN / UPDATE / NOTIFICATION / KEEPALIVE (and one ROUTE-REFRESH) messages:
// every capability, classic and multiprotocol UPDATEs (IPv4, IPv6, labeled unicast) under every
// encode option, every attribute, End-of-RIB markers.
func Corpus(rng *rand.Rand) []Item {
	var out []Item
	add := func(name string, raw []byte, o wire.Options) { out = append(out, Item{name, raw, o}) }
	// KEEPALIVE, NOTIFICATION, ROUTE-REFRESH
	add("keepalive", wire.Keepalive(), wire.Options{})
	for _, n := range [][2]uint8{{1, 1}, {1, 2}, {2, 2}, {2, 6}, {3, 1}, {3, 11}, {4, 0}, {5, 0}, {6, 0}, {6, 2}, {6, 8}} {
		add("notification", (&wire.Notification{Code: n[0], Subcode: n[1]}).Encode(), wire.Options{})
	}
	add("notification-data", (&wire.Notification{Code: 6, Subcode: 2, Data: []byte{3, 'b', 'y', 'e'}}).Encode(), wire.Options{})
	add("route-refresh", wire.Frame(wire.TypeRouteRefresh, []byte{0, 1, 0, 1}), wire.Options{})
	// OPEN
	caps := []wire.Capability{wire.CapMP(wire.IPv4Unicast), wire.CapMP(wire.IPv6Unicast), wire.CapMP(wire.Family{AFI: 1, SAFI: 4}), wire.CapRouteRefresh(), wire.CapAS4(4200000000),
		wire.CapAddPath(wire.AddPathTuple{Family: wire.IPv4Unicast, Mode: 3}, wire.AddPathTuple{Family: wire.IPv6Unicast, Mode: 1}),
		wire.CapExtNextHop(wire.ExtNextHopTuple{AFI: 1, SAFI: 1, NextHopAFI: 2}, wire.ExtNextHopTuple{AFI: 1, SAFI: 4, NextHopAFI: 2}), wire.CapRole(uint8(rng.IntN(5))),
		{Code: 64, Value: []byte{0, 120}}, {Code: 70, Value: nil}, {Code: 73, Value: []byte{3, 'f', 'o', 'o', 0}}}
	add("open-plain", (&wire.Open{Version: 4, AS: 65001, HoldTime: 90, ID: 0x0a000001}).Encode(), wire.Options{})
	add("open-all-caps", (&wire.Open{Version: 4, AS: 23456, HoldTime: 180, ID: rng.Uint32() | 1, Caps: caps}).Encode(), wire.Options{})
	add("open-caps-per-param", (&wire.Open{Version: 4, AS: 64512, HoldTime: 3, ID: 1, Caps: caps, CapsPerParam: true}).Encode(), wire.Options{})
	for i := range caps {
		add("open-one-cap", (&wire.Open{Version: 4, AS: uint16(rng.IntN(65536)), HoldTime: uint16(rng.IntN(400)), ID: rng.Uint32() | 1, Caps: caps[i : i+1]}).Encode(), wire.Options{})
	}
	add("open-other-param", (&wire.Open{Version: 4, AS: 1, HoldTime: 0, ID: 5, OtherParams: []wire.OptParam{{Type: 1, Value: []byte{0, 1, 2}}}}).Encode(), wire.Options{})
	// UPDATE
	for _, o := range allOpts() {
		enc := func(name string, u *wire.Update) {
			if raw, err := u.Encode(o); err == nil {
				add(name, raw, o)
			}
		}
		enc("update-eor4", &wire.Update{})
		enc("update-eor6", &wire.Update{Attrs: (&wire.PathAttrs{MPUnreach: &wire.MPUnreach{Family: wire.IPv6Unicast}}).Build(o)})
		enc("update-withdraw4", &wire.Update{Withdrawn: nlris(rng, true, 1+rng.IntN(5))})
		for k := 0; k < 3; k++ {
			pa := RandAttrs(rng)
			enc("update-classic", &wire.Update{Attrs: pa.Build(o), NLRI: nlris(rng, true, 1+rng.IntN(8)), Withdrawn: nlris(rng, true, rng.IntN(3))})
			pa = RandAttrs(rng)
			pa.NextHop = nil
			pa.MPReach = &wire.MPReach{Family: wire.IPv6Unicast, NextHop: make([]byte, 16<<uint(rng.IntN(2))), NLRI: nlris(rng, false, 1+rng.IntN(6))}
			if rng.IntN(2) == 0 {
				pa.MPUnreach = &wire.MPUnreach{Family: wire.IPv6Unicast, NLRI: nlris(rng, false, 1+rng.IntN(3))}
			}
			enc("update-mp6", &wire.Update{Attrs: pa.Build(o)})
			pa = RandAttrs(rng)
			pa.NextHop = nil
			nh := []byte{192, 0, 2, 1}
			if rng.IntN(2) == 0 {
				nh = make([]byte, 16) // RFC 8950 extended next hop
				nh[0] = 0x20
			}
			pa.MPReach = &wire.MPReach{Family: wire.IPv4Unicast, NextHop: nh, NLRI: nlris(rng, true, 1+rng.IntN(6))}
			enc("update-mp4", &wire.Update{Attrs: pa.Build(o)})
		}
		enc("update-unreach6", &wire.Update{Attrs: (&wire.PathAttrs{MPUnreach: &wire.MPUnreach{Family: wire.IPv6Unicast, NLRI: nlris(rng, false, 1+rng.IntN(4))}}).Build(o)})
		// labeled unicast (SAFI 4), IPv4 and IPv6
		for _, v4 := range []bool{true, false} {
			pa := RandAttrs(rng)
			pa.NextHop = nil
			ns := nlris(rng, v4, 1+rng.IntN(3))
			for i := range ns {
				ns[i].PathID = 0
				ns[i].Labels = [][3]byte{{0, byte(rng.IntN(256)), 0x10}, {0, 1, 0x01 | byte(rng.IntN(16))<<4}}[rng.IntN(2):]
			}
			afi, nh := uint16(wire.AFIIPv6), make([]byte, 16)
			if v4 {
				afi, nh = wire.AFIIPv4, []byte{10, 0, 0, 9}
			}
			pa.MPReach = &wire.MPReach{Family: wire.Family{AFI: afi, SAFI: wire.SAFILabeled}, NextHop: nh, NLRI: ns}
			enc("update-labeled", &wire.Update{Attrs: pa.Build(o)})
		}
		// large attribute sets near the size limit
		pa := RandAttrs(rng)
		pa.ASPath = []wire.Segment{{Type: 2, ASNs: u32s(rng, 255)}, {Type: 2, ASNs: u32s(rng, 100+rng.IntN(100))}}
		pa.Communities = u32s(rng, 200+rng.IntN(200))
		enc("update-big", &wire.Update{Attrs: pa.Build(o), NLRI: nlris(rng, true, 20)})
	}
	return out
}

// fixLen rewrites the header length field to the actual length (capped at 65535).
func fixLen(b []byte) {
	if len(b) >= wire.HeaderLen {
		l := len(b)
		if l > 0xffff {
			l = 0xffff
		}
		binary.BigEndian.PutUint16(b[16:], uint16(l))
	}
}

type span struct{ off, n int } // a length field: offset and width (1 or 2)

// lengthFields locates the length/count fields of a (valid) message.
func lengthFields(b []byte) (lens []span, plens []int, flags []int, types []int) {
	if len(b) < wire.HeaderLen {
		return
	}
	switch b[18] {
	case wire.TypeOpen:
		if len(b) < 29 {
			return
		}
		lens = append(lens, span{28, 1})
		for p := 29; p+2 <= len(b); {
			lens = append(lens, span{p + 1, 1})
			end := p + 2 + int(b[p+1])
			if b[p] == 2 {
				for c := p + 2; c+2 <= end && c+2 <= len(b); c += 2 + int(b[c+1]) {
					lens = append(lens, span{c + 1, 1})
					types = append(types, c)
				}
			}
			p = end
		}
	case wire.TypeUpdate:
		if len(b) < 23 {
			return
		}
		lens = append(lens, span{19, 2})
		wl := int(binary.BigEndian.Uint16(b[19:]))
		for p := 21; p < 21+wl && p < len(b); {
			plens = append(plens, p)
			p += 1 + (int(b[p])+7)/8
		}
		ao := 21 + wl
		if ao+2 > len(b) {
			return
		}
		lens = append(lens, span{ao, 2})
		al := int(binary.BigEndian.Uint16(b[ao:]))
		end := ao + 2 + al
		for p := ao + 2; p+3 <= end && p+3 <= len(b); {
			flags = append(flags, p)
			types = append(types, p+1)
			var l, h int
			if b[p]&wire.FlagExtLen != 0 {
				if p+4 > len(b) {
					break
				}
				lens = append(lens, span{p + 2, 2})
				l, h = int(binary.BigEndian.Uint16(b[p+2:])), 4
			} else {
				lens = append(lens, span{p + 2, 1})
				l, h = int(b[p+2]), 3
			}
			v := p + h
			if v+l <= len(b) {
				switch b[p+1] {
				case wire.AttrASPath, wire.AttrAS4Path:
					if l >= 2 {
						lens = append(lens, span{v + 1, 1}) // segment count
					}
				case wire.AttrMPReach:
					if l >= 5 {
						lens = append(lens, span{v + 3, 1}) // next hop length
						types = append(types, v+1, v+2)     // AFI low byte, SAFI
						if n := v + 4 + int(b[v+3]) + 1; n < v+l {
							plens = append(plens, n)
						}
					}
				case wire.AttrMPUnreach:
					if l >= 3 {
						types = append(types, v+1, v+2)
						if l > 3 {
							plens = append(plens, v+3)
						}
					}
				}
			}
			p = v + l
		}
		if end < len(b) {
			plens = append(plens, end)
		}
	}
	return
}

// cutAttr removes the tail of one attribute value of an UPDATE, at a structural boundary when the attribute has
// one (MP_REACH: after AFI/SAFI, after the next hop length, after the next hop, after the reserved octet; AS_PATH:
// after a segment header), and rewrites the attribute length, the total path attribute length and the header length.
func cutAttr(rng *rand.Rand, b []byte) ([]byte, bool) {
	if len(b) < 23 || b[18] != wire.TypeUpdate {
		return nil, false
	}
	wl := int(binary.BigEndian.Uint16(b[19:]))
	ao := 21 + wl
	if ao+2 > len(b) {
		return nil, false
	}
	al := int(binary.BigEndian.Uint16(b[ao:]))
	end := ao + 2 + al
	if end > len(b) {
		return nil, false
	}
	type at struct{ p, h, l int }
	var attrs []at
	for p := ao + 2; p+3 <= end; {
		var l, h int
		if b[p]&wire.FlagExtLen != 0 {
			if p+4 > end {
				break
			}
			l, h = int(binary.BigEndian.Uint16(b[p+2:])), 4
		} else {
			l, h = int(b[p+2]), 3
		}
		if p+h+l > end {
			break
		}
		if l > 0 {
			attrs = append(attrs, at{p, h, l})
		}
		p += h + l
	}
	if len(attrs) == 0 {
		return nil, false
	}
	a := attrs[rng.IntN(len(attrs))]
	v := a.p + a.h
	cands := []int{0, 1, a.l - 1, rng.IntN(a.l)}
	switch b[a.p+1] {
	case wire.AttrMPReach:
		cands = append(cands, 3, 4)
		if a.l >= 4 {
			nh := int(b[v+3])
			cands = append(cands, 4+nh, 4+nh, 4+nh+1, 4+nh+1, 4+nh-1)
		}
	case wire.AttrMPUnreach:
		cands = append(cands, 2, 3, 4)
	case wire.AttrASPath, wire.AttrAS4Path:
		cands = append(cands, 1, 2, 3)
	}
	nl := cands[rng.IntN(len(cands))]
	if nl < 0 || nl >= a.l {
		nl = rng.IntN(a.l)
	}
	cut := a.l - nl
	out := append([]byte(nil), b[:v+nl]...)
	out = append(out, b[v+a.l:]...)
	if a.h == 4 {
		binary.BigEndian.PutUint16(out[a.p+2:], uint16(nl))
	} else {
		out[a.p+2] = byte(nl)
	}
	binary.BigEndian.PutUint16(out[ao:], uint16(al-cut))
	fixLen(out)
	return out, true
}

// Kinds lists the mutation kinds Mutate can apply.
var Kinds = []string{"attr-cut", "hdr-length", "truncate", "bitflip", "length-field", "flag-flip", "prefix-len", "type-swap", "splice", "random-tail", "insert", "extend", "none"}

// Mutate applies one typed mutation to a copy of raw (other is a second corpus message, used for
// splices) and reports its kind. Results are at most 4096 bytes.
func Mutate(rng *rand.Rand, raw, other []byte) ([]byte, string) {
	b := append([]byte(nil), raw...)
	lens, plens, flags, types := lengthFields(b)
	kind := Kinds[rng.IntN(len(Kinds))]
	refit := rng.IntN(10) < 7
	switch kind {
	case "attr-cut":
		// shorten one attribute's value and keep every enclosing length consistent (attribute length, total path
		// attribute length, header length): the framing stays valid, the attribute's content ends early
		if c, ok := cutAttr(rng, b); ok {
			return c, kind
		}
		return b, "none"
	case "hdr-length":
		vals := []int{0, 1, 18, 19, 20, len(b) - 1, len(b) + 1, 4096, 4097, 0xffff, rng.IntN(0x10000)}
		v := vals[rng.IntN(len(vals))]
		if v < 0 {
			v = 0
		}
		if len(b) >= 18 {
			binary.BigEndian.PutUint16(b[16:], uint16(v))
		}
		refit = false
	case "truncate":
		if len(b) > 0 {
			b = b[:rng.IntN(len(b))]
		}
	case "bitflip":
		for i, n := 0, 1+rng.IntN(4); i < n && len(b) > 0; i++ {
			p := rng.IntN(len(b))
			if len(b) > wire.HeaderLen && rng.IntN(4) != 0 {
				p = wire.HeaderLen + rng.IntN(len(b)-wire.HeaderLen)
			}
			b[p] ^= 1 << uint(rng.IntN(8))
		}
	case "length-field":
		if len(lens) == 0 {
			kind = "none"
			break
		}
		s := lens[rng.IntN(len(lens))]
		var cur int
		if s.n == 1 {
			cur = int(b[s.off])
		} else {
			cur = int(binary.BigEndian.Uint16(b[s.off:]))
		}
		vals := []int{0, 1, cur - 1, cur + 1, cur + 4, 254, 255, 256, 0xffff, 0xfffe, rng.IntN(0x10000), len(b)}
		v := vals[rng.IntN(len(vals))]
		if v < 0 {
			v = 0
		}
		if s.n == 1 {
			b[s.off] = byte(v)
		} else {
			binary.BigEndian.PutUint16(b[s.off:], uint16(v))
		}
	case "flag-flip":
		if len(flags) == 0 {
			kind = "none"
			break
		}
		b[flags[rng.IntN(len(flags))]] ^= []byte{0x10, 0x10, 0x80, 0x40, 0x20, 0x0f}[rng.IntN(6)]
	case "prefix-len":
		if len(plens) == 0 {
			kind = "none"
			break
		}
		p := plens[rng.IntN(len(plens))]
		// under add-path the length octet sits 4 bytes later
		if rng.IntN(2) == 0 && p+4 < len(b) {
			p += 4
		}
		b[p] = []byte{0, 1, 23, 24, 25, 32, 33, 47, 48, 49, 128, 129, 152, 153, 200, 255}[rng.IntN(16)]
	case "type-swap":
		if len(types) == 0 {
			kind = "none"
			break
		}
		p := types[rng.IntN(len(types))]
		if rng.IntN(2) == 0 {
			b[p] = []byte{0, 1, 2, 3, 4, 5, 6, 7, 8, 9, 10, 14, 15, 16, 17, 18, 32, 35, 65, 69, 128, 255}[rng.IntN(22)]
		} else {
			b[p] = byte(rng.IntN(256))
		}
	case "splice":
		if len(b) > wire.HeaderLen && len(other) > wire.HeaderLen {
			i := wire.HeaderLen + rng.IntN(len(b)-wire.HeaderLen)
			j := wire.HeaderLen + rng.IntN(len(other)-wire.HeaderLen)
			b = append(b[:i:i], other[j:]...)
		}
	case "random-tail":
		if len(b) >= wire.HeaderLen {
			keep := wire.HeaderLen + rng.IntN(len(b)-wire.HeaderLen+1)
			tail := make([]byte, rng.IntN(64))
			for i := range tail {
				tail[i] = byte(rng.IntN(256))
			}
			b = append(b[:keep:keep], tail...)
		}
	case "insert":
		if len(b) > wire.HeaderLen {
			i := wire.HeaderLen + rng.IntN(len(b)-wire.HeaderLen)
			ins := make([]byte, 1+rng.IntN(8))
			for k := range ins {
				ins[k] = byte(rng.IntN(256))
			}
			b = append(b[:i:i], append(ins, b[i:]...)...)
		}
	case "extend":
		// pad to (nearly) the maximum size with a repeating pattern so that length-driven loops run long
		pat := []byte{0, 0x20, 1, 2, 3, 4}[rng.IntN(5):]
		for len(b) < wire.MaxLen-rng.IntN(3) {
			b = append(b, pat...)
		}
	case "none":
	}
	if len(b) > wire.MaxLen {
		b = b[:wire.MaxLen]
	}
	if refit && kind != "none" {
		fixLen(b)
	}
	return b, kind
}
