// Package bmpmsg builds BMP messages (RFC 7854) and the BGP messages embedded in them
// (RFC 4271 OPEN/UPDATE, RFC 5492 capabilities, RFC 4760 MP_REACH/MP_UNREACH, RFC 6793, RFC 7911)
// byte by byte from the RFCs. It imports nothing from bio-rd. Every builder has a "raw" variant in
// which the length/count fields are chosen by the caller, which is what the hostile workloads use.
package bmpmsg

import "encoding/binary"

// BMP message types.
const (
	TypeRouteMonitoring = 0
	TypeStats           = 1
	TypePeerDown        = 2
	TypePeerUp          = 3
	TypeInitiation      = 4
	TypeTermination     = 5
	TypeRouteMirroring  = 6

	CommonLen  = 6
	PerPeerLen = 42

	FlagV = 0x80 // peer address is IPv6
	FlagL = 0x40 // post-policy Adj-RIB-In
	FlagA = 0x20 // legacy 2-byte AS_PATH format
)

func be16(v uint16) []byte { b := make([]byte, 2); binary.BigEndian.PutUint16(b, v); return b }
func be32(v uint32) []byte { b := make([]byte, 4); binary.BigEndian.PutUint32(b, v); return b }
func be64(v uint64) []byte { b := make([]byte, 8); binary.BigEndian.PutUint64(b, v); return b }

func cat(parts ...[]byte) []byte {
	n := 0
	for _, p := range parts {
		n += len(p)
	}
	out := make([]byte, 0, n)
	for _, p := range parts {
		out = append(out, p...)
	}
	return out
}

// CommonRaw builds a message with caller-chosen version and length field.
func CommonRaw(version uint8, length uint32, typ uint8, body []byte) []byte {
	return cat([]byte{version}, be32(length), []byte{typ}, body)
}

// Common frames body as a version 3 message of the given type with the correct length.
func Common(typ uint8, body []byte) []byte {
	return CommonRaw(3, uint32(CommonLen+len(body)), typ, body)
}

// PeerHdr is the per-peer header.
type PeerHdr struct {
	Type  uint8    `json:"type,omitempty"`
	Flags uint8    `json:"flags,omitempty"`
	RD    uint64   `json:"rd"`
	Addr  [16]byte `json:"addr"`
	AS    uint32   `json:"as"`
	BGPID uint32   `json:"bgpid"`
	TS    uint32   `json:"ts,omitempty"`
	TSus  uint32   `json:"tsus,omitempty"`
}

func (p PeerHdr) Bytes() []byte {
	return cat([]byte{p.Type, p.Flags}, be64(p.RD), p.Addr[:], be32(p.AS), be32(p.BGPID), be32(p.TS), be32(p.TSus))
}

// V4 maps an IPv4 address into the 16-byte field (12 zero bytes then the address).
func V4(a, b, c, d byte) [16]byte {
	var x [16]byte
	x[12], x[13], x[14], x[15] = a, b, c, d
	return x
}

// TLV is an information TLV (type, 2-byte length, value).
type TLV struct {
	Type  uint16
	Value []byte
}

func (t TLV) Bytes() []byte { return TLVRaw(t.Type, uint16(len(t.Value)), t.Value) }

// TLVRaw builds a TLV whose length field is chosen by the caller.
func TLVRaw(typ, declared uint16, value []byte) []byte {
	return cat(be16(typ), be16(declared), value)
}

func tlvs(ts []TLV) []byte {
	var out []byte
	for _, t := range ts {
		out = append(out, t.Bytes()...)
	}
	return out
}

func Initiation(ts ...TLV) []byte  { return Common(TypeInitiation, tlvs(ts)) }
func Termination(ts ...TLV) []byte { return Common(TypeTermination, tlvs(ts)) }

// TerminationReason builds a termination message with a string TLV and a 2-byte reason TLV.
func TerminationReason(reason uint16, text string) []byte {
	ts := []TLV{}
	if text != "" {
		ts = append(ts, TLV{0, []byte(text)})
	}
	ts = append(ts, TLV{1, be16(reason)})
	return Termination(ts...)
}

// PeerUpBody is everything after the common header of a peer up notification.
func PeerUpBody(ph PeerHdr, local [16]byte, lport, rport uint16, sentOpen, recvOpen, info []byte) []byte {
	return cat(ph.Bytes(), local[:], be16(lport), be16(rport), sentOpen, recvOpen, info)
}

func PeerUp(ph PeerHdr, local [16]byte, lport, rport uint16, sentOpen, recvOpen, info []byte) []byte {
	return Common(TypePeerUp, PeerUpBody(ph, local, lport, rport, sentOpen, recvOpen, info))
}

func PeerDown(ph PeerHdr, reason uint8, data []byte) []byte {
	return Common(TypePeerDown, cat(ph.Bytes(), []byte{reason}, data))
}

func RouteMonitoring(ph PeerHdr, update []byte) []byte {
	return Common(TypeRouteMonitoring, cat(ph.Bytes(), update))
}

// StatsRaw builds a statistics report whose count field is chosen by the caller.
func StatsRaw(ph PeerHdr, count uint32, ts []byte) []byte {
	return Common(TypeStats, cat(ph.Bytes(), be32(count), ts))
}

// Stats builds a statistics report of 4-byte counters (type, value).
func Stats(ph PeerHdr, counters ...[2]uint32) []byte {
	var body []byte
	for _, c := range counters {
		body = append(body, TLV{uint16(c[0]), be32(c[1])}.Bytes()...)
	}
	return StatsRaw(ph, uint32(len(counters)), body)
}

func RouteMirroring(ph PeerHdr, ts ...TLV) []byte {
	return Common(TypeRouteMirroring, cat(ph.Bytes(), tlvs(ts)))
}

// Frame is one unit of a byte stream as a conforming receiver frames it.
type Frame struct {
	Off      int  // offset in the stream
	Len      int  // bytes of the stream that belong to it (may be short of Declared)
	Declared int  // length field (-1 when fewer than 6 bytes remained)
	Type     int  // message type byte (-1 when unknown)
	Version  int  // version byte
	Complete bool // the stream holds the whole declared frame and Declared >= 6
}

// Split frames a stream the way RFC 7854 prescribes: 6-byte common header, then length-6 bytes.
// A declared length below 6 cannot be framed: the rest of the stream is returned as one
// incomplete frame.
func Split(stream []byte) []Frame {
	var out []Frame
	off := 0
	for off < len(stream) {
		rest := stream[off:]
		if len(rest) < CommonLen {
			out = append(out, Frame{Off: off, Len: len(rest), Declared: -1, Type: -1, Version: int(rest[0])})
			break
		}
		decl := int(binary.BigEndian.Uint32(rest[1:5]))
		f := Frame{Off: off, Declared: decl, Type: int(rest[5]), Version: int(rest[0])}
		if decl < CommonLen || decl > len(rest) {
			f.Len = len(rest)
			out = append(out, f)
			break
		}
		f.Len = decl
		f.Complete = true
		out = append(out, f)
		off += decl
	}
	return out
}

// ---------------------------------------------------------------------------------------------
// BGP

var marker = []byte{0xff, 0xff, 0xff, 0xff, 0xff, 0xff, 0xff, 0xff, 0xff, 0xff, 0xff, 0xff, 0xff, 0xff, 0xff, 0xff}

const (
	BGPOpen         = 1
	BGPUpdate       = 2
	BGPNotification = 3
	BGPKeepalive    = 4

	ASTrans = 23456
)

// BGPRaw frames a BGP message with a caller-chosen length field.
func BGPRaw(length uint16, typ uint8, body []byte) []byte {
	return cat(marker, be16(length), []byte{typ}, body)
}

// BGP frames a BGP message.
func BGP(typ uint8, body []byte) []byte { return BGPRaw(uint16(19+len(body)), typ, body) }

// Cap is one capability (RFC 5492).
type Cap struct {
	Code  uint8
	Value []byte
}

func CapMP(afi uint16, safi uint8) Cap { return Cap{1, cat(be16(afi), []byte{0, safi})} }
func CapAS4(asn uint32) Cap            { return Cap{65, be32(asn)} }

// CapAddPath: tuples of (afi, safi, send/receive) with 1 = receive, 2 = send, 3 = both.
func CapAddPath(tuples ...[3]uint16) Cap {
	var v []byte
	for _, t := range tuples {
		v = append(v, cat(be16(t[0]), []byte{byte(t[1]), byte(t[2])})...)
	}
	return Cap{69, v}
}

// Open describes an OPEN message.
type Open struct {
	AS2  uint16
	Hold uint16
	ID   uint32
	Caps []Cap
}

// Bytes encodes the OPEN with every capability in its own optional parameter of type 2.
func (o Open) Bytes() []byte {
	var opt []byte
	for _, c := range o.Caps {
		cv := cat([]byte{c.Code, byte(len(c.Value))}, c.Value)
		opt = append(opt, cat([]byte{2, byte(len(cv))}, cv)...)
	}
	body := cat([]byte{4}, be16(o.AS2), be16(o.Hold), be32(o.ID), []byte{byte(len(opt))}, opt)
	return BGP(BGPOpen, body)
}

// OpenFor builds the OPEN of a speaker with the given AS (AS_TRANS + 4-octet capability when the AS
// does not fit, or when as4 is requested).
func OpenFor(asn uint32, id uint32, as4 bool, extra ...Cap) Open {
	o := Open{Hold: 90, ID: id}
	if asn > 65535 {
		o.AS2 = ASTrans
		as4 = true
	} else {
		o.AS2 = uint16(asn)
	}
	o.Caps = append(o.Caps, CapMP(1, 1), CapMP(2, 1))
	if as4 {
		o.Caps = append(o.Caps, CapAS4(asn))
	}
	o.Caps = append(o.Caps, extra...)
	return o
}

// NLRI is one prefix, optionally with an add-path identifier.
type NLRI struct {
	PathID  uint32 `json:"id,omitempty"`
	AddPath bool   `json:"ap,omitempty"`
	Len     uint8  `json:"len"`
	Addr    []byte `json:"addr"` // 4 or 16 bytes; only the first ceil(Len/8) are encoded
}

func (n NLRI) Bytes() []byte {
	var out []byte
	if n.AddPath {
		out = append(out, be32(n.PathID)...)
	}
	out = append(out, n.Len)
	nb := (int(n.Len) + 7) / 8
	if nb > len(n.Addr) {
		nb = len(n.Addr)
	}
	return append(out, n.Addr[:nb]...)
}

func nlris(ns []NLRI) []byte {
	var out []byte
	for _, n := range ns {
		out = append(out, n.Bytes()...)
	}
	return out
}

// Attr builds one path attribute; the extended-length flag is used iff needed.
func Attr(flags, typ uint8, value []byte) []byte {
	if len(value) > 255 {
		return cat([]byte{flags | 0x10, typ}, be16(uint16(len(value))), value)
	}
	return cat([]byte{flags &^ 0x10, typ, byte(len(value))}, value)
}

func AttrOrigin(v uint8) []byte { return Attr(0x40, 1, []byte{v}) }

// AttrASPath encodes one AS_SEQUENCE (none when asns is empty) with 2- or 4-byte AS numbers.
func AttrASPath(as4 bool, asns []uint32) []byte {
	var v []byte
	if len(asns) > 0 {
		v = []byte{2, byte(len(asns))}
		for _, a := range asns {
			if as4 {
				v = append(v, be32(a)...)
			} else {
				v = append(v, be16(uint16(a))...)
			}
		}
	}
	return Attr(0x40, 2, v)
}

func AttrNextHop(ip [4]byte) []byte { return Attr(0x40, 3, ip[:]) }
func AttrMED(v uint32) []byte       { return Attr(0x80, 4, be32(v)) }
func AttrLocalPref(v uint32) []byte { return Attr(0x40, 5, be32(v)) }
func AttrCommunities(cs ...uint32) []byte {
	var v []byte
	for _, c := range cs {
		v = append(v, be32(c)...)
	}
	return Attr(0xc0, 8, v)
}

// AttrMPReach: next hop is 16 bytes for IPv6, 4 for IPv4.
func AttrMPReach(afi uint16, safi uint8, nh []byte, ns []NLRI) []byte {
	return Attr(0x80, 14, cat(be16(afi), []byte{safi, byte(len(nh))}, nh, []byte{0}, nlris(ns)))
}

func AttrMPUnreach(afi uint16, safi uint8, ns []NLRI) []byte {
	return Attr(0x80, 15, cat(be16(afi), []byte{safi}, nlris(ns)))
}

// Update builds an UPDATE from withdrawn routes, already encoded attributes and NLRI.
func Update(withdrawn []NLRI, attrs []byte, nlri []NLRI) []byte {
	w := nlris(withdrawn)
	return BGP(BGPUpdate, cat(be16(uint16(len(w))), w, be16(uint16(len(attrs))), attrs, nlris(nlri)))
}

// Notification builds a NOTIFICATION.
func Notification(code, sub uint8) []byte { return BGP(BGPNotification, []byte{code, sub}) }

// Keepalive builds a KEEPALIVE.
func Keepalive() []byte { return BGP(BGPKeepalive, nil) }
