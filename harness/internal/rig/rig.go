package rig

import (
	"fmt"
	"sync"
	"sync/atomic"

	bnet "github.com/bio-routing/bio-rd/net"
	"github.com/bio-routing/bio-rd/protocols/bgp/packet"
	"github.com/bio-routing/bio-rd/route"
	"github.com/bio-routing/bio-rd/routingtable"
	"github.com/bio-routing/bio-rd/routingtable/adjRIBIn"
	"github.com/bio-routing/bio-rd/routingtable/adjRIBOut"
	"github.com/bio-routing/bio-rd/routingtable/filter"
	"github.com/bio-routing/bio-rd/routingtable/locRIB"
	"github.com/bio-routing/bio-rd/routingtable/vrf"

	"verifharness/internal/gen"
)

// Session kinds.
const (
	EBGP   = "ebgp"
	EBGPRS = "ebgp-rs" // eBGP route-server client
	IBGP   = "ibgp"
	IBGPRR = "ibgp-rr" // iBGP route-reflector client
)

var Kinds = []string{EBGP, EBGPRS, IBGP, IBGPRR}

// Role names (RFC 9234) <-> bio-rd's numeric roles.
var RoleNames = map[uint8]string{packet.PeerRoleRoleProvider: "provider", packet.PeerRoleRoleRS: "rs", packet.PeerRoleRoleRSClient: "rs-client",
	packet.PeerRoleRoleCustomer: "customer", packet.PeerRoleRolePeer: "peer"}

// Local is the local speaker.
type Local struct {
	ASN       uint32 `json:"asn"`
	RouterID  uint32 `json:"router_id"`
	ClusterID uint32 `json:"cluster_id"`
	IP        uint32 `json:"ip"`
}

// DefaultLocal is used by all checks unless a case says otherwise.
var DefaultLocal = Local{ASN: 65000, RouterID: 0x0A000001, ClusterID: 0x0A0000C1, IP: 0x0A000001}

// Role is the RFC 9234 state of a session.
type Role struct {
	Enabled   bool  `json:"enabled"`
	AdvByPeer bool  `json:"adv_by_peer"`
	Local     uint8 `json:"local"`
	Remote    uint8 `json:"remote"`
}

// Known reports whether the peer's role is known to the local speaker (both sides announced one).
func (r *Role) Known() bool { return r != nil && r.Enabled && r.AdvByPeer }

func (r *Role) String() string {
	if r == nil || !r.Enabled {
		return "off"
	}
	if !r.AdvByPeer {
		return "local-only"
	}
	return RoleNames[r.Remote]
}

// Sess describes one BGP session as far as the table layer sees it.
type Sess struct {
	Kind      string `json:"kind"`
	AddPath   uint   `json:"addpath,omitempty"` // 0 = best path only, n = add-path send with at most n paths
	Peer      uint32 `json:"peer"`
	PeerASN   uint32 `json:"peer_asn"`
	Role      *Role  `json:"role,omitempty"`
	AddPathRX bool   `json:"addpath_rx,omitempty"`
}

func (s Sess) IBGP() bool { return s.Kind == IBGP || s.Kind == IBGPRR }

// Rewrites reports whether the session kind rewrites attributes of what it exports.
func (s Sess) Rewrites() bool { return s.Kind == EBGP || s.Kind == IBGPRR || s.Role.Known() }

// Attrs builds bio-rd's SessionAttrs exactly as fsmAddressFamily.getSessionAttrs does.
func (s Sess) Attrs(l Local, pool *IPPool) routingtable.SessionAttrs {
	sa := routingtable.SessionAttrs{
		RouterID:             l.RouterID,
		PeerIP:               pool.IP(s.Peer),
		LocalIP:              pool.IP(l.IP),
		Type:                 route.BGPPathType,
		IBGP:                 s.IBGP(),
		LocalASN:             l.ASN,
		PeerASN:              s.PeerASN,
		RouteServerClient:    s.Kind == EBGPRS,
		RouteReflectorClient: s.Kind == IBGPRR,
		ClusterID:            l.ClusterID,
		AddPathRX:            s.AddPathRX,
		AddPathTX:            s.AddPath > 0,
	}
	if s.Role != nil {
		sa.PeerRoleEnabled = s.Role.Enabled
		sa.PeerRoleAdvByPeer = s.Role.AdvByPeer
		sa.PeerRoleLocal = s.Role.Local
		sa.PeerRoleRemote = s.Role.Remote
	}
	return sa
}

// Opts are the client options the Adj-RIB-Out registers with on the Loc-RIB.
func (s Sess) Opts() routingtable.ClientOptions {
	if s.AddPath == 0 {
		return routingtable.ClientOptions{BestOnly: true}
	}
	return routingtable.ClientOptions{MaxPaths: s.AddPath}
}

// Take is how many of the Loc-RIB's paths of a prefix the session's add-path setting selects.
func (s Sess) Take(n int) int {
	k := 1
	if s.AddPath > 0 {
		k = int(s.AddPath)
	}
	if n < k {
		k = n
	}
	return k
}

// ---------------------------------------------------------------------------------------------------------

// Event is one callback seen by a recording client.
type Event struct {
	Seq    uint64 // global sequence number over all recorders of one rig
	Kind   string // add | add-initial | remove | replace | refresh | eor | dispose
	Pfx    gen.P
	ID     uint32 // unique id of the path
	NoID   bool
	PathID uint32 // add-path identifier carried by the callback
	Hash   uint64 // deep content hash
	Hash0  uint64 // deep content hash without the add-path identifier
	Attr   Attr   // projection (copied at callback time)
}

// Recorder is a RouteTableClient that logs every callback under its own mutex and never calls back into the
// table it observes.
type Recorder struct {
	Name string
	seq  *atomic.Uint64
	mu   sync.Mutex
	ev   []Event
	Fail func(kind string) error // optional: error to return from AddPath
}

func NewRecorder(name string, seq *atomic.Uint64) *Recorder { return &Recorder{Name: name, seq: seq} }

func (r *Recorder) log(kind string, pfx *bnet.Prefix, p *route.Path) {
	e := Event{Seq: r.seq.Add(1), Kind: kind}
	if pfx != nil {
		e.Pfx = gen.FromBio(pfx)
	}
	if p != nil {
		func() {
			defer func() { recover() }()
			e.Attr = FromPath(p)
			e.ID, e.NoID, e.PathID = e.Attr.ID, e.Attr.NoID, e.Attr.PathID
			e.Hash = PathHash(p)
			h := PathBytes(p, false)
			e.Hash0 = hashBytes(h)
		}()
	}
	r.mu.Lock()
	r.ev = append(r.ev, e)
	r.mu.Unlock()
}

func hashBytes(b []byte) uint64 {
	h := uint64(14695981039346656037)
	for _, c := range b {
		h = (h ^ uint64(c)) * 1099511628211
	}
	return h
}

func (r *Recorder) AddPath(pfx *bnet.Prefix, p *route.Path) error {
	r.log("add", pfx, p)
	return nil
}
func (r *Recorder) AddPathInitialDump(pfx *bnet.Prefix, p *route.Path) error {
	r.log("add-initial", pfx, p)
	return nil
}
func (r *Recorder) EndOfRIB() { r.log("eor", nil, nil) }
func (r *Recorder) RemovePath(pfx *bnet.Prefix, p *route.Path) bool {
	r.log("remove", pfx, p)
	return true
}
func (r *Recorder) ReplacePath(pfx *bnet.Prefix, o, n *route.Path) {
	r.log("replace-old", pfx, o)
	r.log("replace-new", pfx, n)
}
func (r *Recorder) RefreshRoute(pfx *bnet.Prefix, ps []*route.Path) {
	for _, p := range ps {
		r.log("refresh", pfx, p)
	}
}
func (r *Recorder) Dispose() { r.log("dispose", nil, nil) }

// Events returns a copy of the log.
func (r *Recorder) Events() []Event {
	r.mu.Lock()
	defer r.mu.Unlock()
	return append([]Event{}, r.ev...)
}

// Since returns the events logged after the first n.
func (r *Recorder) Since(n int) []Event {
	r.mu.Lock()
	defer r.mu.Unlock()
	if n > len(r.ev) {
		n = len(r.ev)
	}
	return append([]Event{}, r.ev[n:]...)
}

func (r *Recorder) Len() int {
	r.mu.Lock()
	defer r.mu.Unlock()
	return len(r.ev)
}

// ---------------------------------------------------------------------------------------------------------

// In is one Adj-RIB-In of the rig.
type In struct {
	Sess  Sess
	Table *adjRIBIn.AdjRIBIn
	Chain Policy
}

// Out is one Adj-RIB-Out of the rig with its recording client.
type Out struct {
	Sess       Sess
	Table      *adjRIBOut.AdjRIBOut
	Chain      Policy
	Rec        *Recorder
	Registered bool
}

// Rig is vrf -> Loc-RIB with any number of Adj-RIB-Ins and Adj-RIB-Outs, built through the public API the way
// fsmAddressFamily.init does it.
type Rig struct {
	Local Local
	Pool  *IPPool
	VRF   *vrf.VRF
	Loc   *locRIB.LocRIB
	Ins   []*In
	Outs  []*Out
	Seq   atomic.Uint64
}

// New builds an empty rig for one address family.
func New(l Local, v4 bool) *Rig {
	r := &Rig{Local: l, Pool: NewIPPool()}
	r.VRF = vrf.NewUntrackedVRF("verif", 0)
	if v4 {
		r.Loc, _ = r.VRF.CreateIPv4UnicastLocRIB("inet.0")
	} else {
		r.Loc, _ = r.VRF.CreateIPv6UnicastLocRIB("inet6.0")
	}
	r.VRF.AddContributingASN(l.ASN)
	return r
}

// AddIn creates an Adj-RIB-In with the import chain and registers the Loc-RIB on it.
func (r *Rig) AddIn(s Sess, imp Policy) *In {
	in := &In{Sess: s, Chain: imp}
	in.Table = adjRIBIn.New(imp.Build(r.Pool), r.VRF, s.Attrs(r.Local, r.Pool))
	if s.Kind == IBGPRR {
		r.VRF.AddContributingClusterID(r.Local.ClusterID)
	}
	in.Table.Register(r.Loc)
	r.Ins = append(r.Ins, in)
	return in
}

// NewOut creates an Adj-RIB-Out with a recording client but does not yet register it on the Loc-RIB.
func (r *Rig) NewOut(s Sess, exp Policy) *Out {
	o := &Out{Sess: s, Chain: exp}
	o.Table = adjRIBOut.New(r.Loc, s.Attrs(r.Local, r.Pool), exp.Build(r.Pool))
	o.Rec = NewRecorder(fmt.Sprintf("out%d/%s", len(r.Outs), s.Kind), &r.Seq)
	o.Table.Register(o.Rec)
	r.Outs = append(r.Outs, o)
	return o
}

// Attach registers the Adj-RIB-Out on the Loc-RIB (initial dump happens inside).
func (r *Rig) Attach(o *Out) {
	r.Loc.RegisterWithOptions(o.Table, o.Sess.Opts())
	o.Registered = true
}

// AddOut = NewOut + Attach.
func (r *Rig) AddOut(s Sess, exp Policy) *Out {
	o := r.NewOut(s, exp)
	r.Attach(o)
	return o
}

// Detach unregisters the Adj-RIB-Out from the Loc-RIB.
func (r *Rig) Detach(o *Out) {
	r.Loc.Unregister(o.Table)
	o.Registered = false
}

// ReplaceExport replaces the export chain of an Adj-RIB-Out.
func (r *Rig) ReplaceExport(o *Out, p Policy) {
	o.Table.ReplaceFilterChain(p.Build(r.Pool))
	o.Chain = p
}

// ReplaceImport replaces the import chain of an Adj-RIB-In.
func (r *Rig) ReplaceImport(in *In, p Policy) {
	in.Table.ReplaceFilterChain(p.Build(r.Pool))
	in.Chain = p
}

// AcceptAll is bio-rd's own accept-all chain.
func AcceptAllChain() filter.Chain { return filter.NewAcceptAllFilterChain() }

// Guard runs fn and converts a panic into an error string with a short stack.
func Guard(fn func()) (panicked string) {
	defer func() {
		if p := recover(); p != nil {
			panicked = fmt.Sprintf("%v\n%s", p, shortStack())
		}
	}()
	fn()
	return ""
}
