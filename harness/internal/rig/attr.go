// Package rig is the table rig shared by the export-side checks (C08, C09, C11, C12, C13): it
// builds vrf -> Loc-RIB, Adj-RIB-Ins and Adj-RIB-Outs through bio-rd's public API only, provides
// JSON-serialisable path/session/policy descriptions (so that every generated case can be replayed),
// a recording RouteTableClient, deep canonical snapshots of table dumps, a reference export function
// (the rule table of C09) and a reference policy interpreter over the constructors filter/actions export.
package rig

import (
	"fmt"
	"sort"
	"strings"

	bnet "github.com/bio-routing/bio-rd/net"
	"github.com/bio-routing/bio-rd/protocols/bgp/types"
	"github.com/bio-routing/bio-rd/route"
)

// IDTag is the global administrator of the large community that carries a BGP path's unique id. No export
// rule and no policy action the constructors offer touches large communities, so the id survives every rewrite.
const IDTag = 0xFACE

// StaticNHBase: a static path's unique id travels in its next hop (StaticNHBase + id); the Adj-RIB-Out keeps the
// StaticPath of a redistributed path, so the id is recoverable whatever the session does to the BGP next hop.
const StaticNHBase = 0xAC100000 // 172.16.0.0

// Seg is one AS_PATH segment.
type Seg struct {
	Set  bool     `json:"set,omitempty"`
	ASNs []uint32 `json:"asns"`
}

// Unk is an unknown (optional transitive) attribute.
type Unk struct {
	Optional   bool   `json:"o,omitempty"`
	Transitive bool   `json:"t,omitempty"`
	Partial    bool   `json:"p,omitempty"`
	Type       uint8  `json:"type"`
	Value      []byte `json:"v"`
}

// Attr describes one path: it is the generated input (built into a fresh *route.Path for every call into
// bio-rd), the reference model's working value and the projection extracted from observed paths.
// All addresses are IPv4 values; prefixes may be of either family.
type Attr struct {
	ID     uint32 `json:"id"`
	Static bool   `json:"static,omitempty"` // static path (Loc-RIB side) / redistributed static (export side)

	Source  uint32 `json:"src,omitempty"` // address of the peer the path was learned from
	EBGP    bool   `json:"ebgp,omitempty"`
	BGPID   uint32 `json:"bgpid,omitempty"`
	NextHop uint32 `json:"nh,omitempty"`

	LocalPref uint32 `json:"lp,omitempty"`
	MED       uint32 `json:"med,omitempty"`
	Origin    uint8  `json:"origin,omitempty"`
	ASPath    []Seg  `json:"aspath,omitempty"`

	Comms  []uint32    `json:"comms,omitempty"`
	LComms [][3]uint32 `json:"lcomms,omitempty"` // without the id community

	OriginatorID uint32   `json:"orig,omitempty"`
	ClusterList  []uint32 `json:"cl,omitempty"`
	OTC          uint32   `json:"otc,omitempty"`

	AtomicAgg  bool       `json:"aa,omitempty"`
	Aggregator *[2]uint32 `json:"aggr,omitempty"` // address, asn
	Unknown    []Unk      `json:"unk,omitempty"`

	PathID uint32 `json:"pathid,omitempty"` // add-path identifier (received side / observed)
	Dedup  bool   `json:"dedup,omitempty"`  // hand bio-rd a path whose BGPPathA went through BGPPath.Dedup()
	NoID   bool   `json:"noid,omitempty"`   // do not add the id community (C11: attribute-identical paths)
	LTime  uint32 `json:"ltime,omitempty"`
}

// IPPool hands out one *bnet.IP per address value for the lifetime of one case: pointers are shared inside a
// case (as bio-rd shares deduplicated addresses) and never between cases, so the process-global BGPPathA cache
// cannot couple two cases that run in the same process.
type IPPool struct{ m map[uint32]*bnet.IP }

func NewIPPool() *IPPool { return &IPPool{m: map[uint32]*bnet.IP{}} }

func (p *IPPool) IP(a uint32) *bnet.IP {
	if x, ok := p.m[a]; ok {
		return x
	}
	x := bnet.IPv4(a).Ptr()
	p.m[a] = x
	return x
}

// Build makes a fresh *route.Path (never hand the same one to bio-rd twice).
func (a Attr) Build(pool *IPPool) *route.Path {
	if a.Static {
		return &route.Path{Type: route.StaticPathType, LTime: a.LTime, StaticPath: &route.StaticPath{NextHop: pool.IP(StaticNHBase + a.ID)}}
	}
	b := &route.BGPPath{
		BGPPathA: &route.BGPPathA{
			NextHop:         pool.IP(a.NextHop),
			Source:          pool.IP(a.Source),
			LocalPref:       a.LocalPref,
			MED:             a.MED,
			BGPIdentifier:   a.BGPID,
			OriginatorID:    a.OriginatorID,
			EBGP:            a.EBGP,
			AtomicAggregate: a.AtomicAgg,
			Origin:          a.Origin,
			OnlyToCustomer:  a.OTC,
		},
		PathIdentifier: a.PathID,
	}
	if a.Aggregator != nil {
		b.BGPPathA.Aggregator = &types.Aggregator{Address: a.Aggregator[0], ASN: uint16(a.Aggregator[1])}
	}
	asp := make(types.ASPath, 0, len(a.ASPath))
	for _, s := range a.ASPath {
		t := uint8(types.ASSequence)
		if s.Set {
			t = types.ASSet
		}
		asp = append(asp, types.ASPathSegment{Type: t, ASNs: append([]uint32{}, s.ASNs...)})
	}
	b.ASPath = &asp
	b.ASPathLen = asp.Length()
	if len(a.Comms) > 0 {
		c := make(types.Communities, len(a.Comms))
		copy(c, a.Comms)
		b.Communities = &c
	}
	lc := types.LargeCommunities{}
	if !a.NoID {
		lc = append(lc, types.LargeCommunity{GlobalAdministrator: IDTag, DataPart1: a.ID})
	}
	for _, x := range a.LComms {
		lc = append(lc, types.LargeCommunity{GlobalAdministrator: x[0], DataPart1: x[1], DataPart2: x[2]})
	}
	if len(lc) > 0 {
		b.LargeCommunities = &lc
	}
	if len(a.ClusterList) > 0 {
		cl := make(types.ClusterList, len(a.ClusterList))
		copy(cl, a.ClusterList)
		b.ClusterList = &cl
	}
	for _, u := range a.Unknown {
		b.UnknownAttributes = append(b.UnknownAttributes, types.UnknownPathAttribute{Optional: u.Optional, Transitive: u.Transitive,
			Partial: u.Partial, TypeCode: u.Type, Value: append([]byte{}, u.Value...)})
	}
	if a.Dedup {
		b = b.Dedup()
	}
	return &route.Path{Type: route.BGPPathType, LTime: a.LTime, BGPPath: b}
}

func ip4(p *bnet.IP) uint32 {
	if p == nil {
		return 0
	}
	if p.IsIPv4() {
		return p.ToUint32()
	}
	return uint32(p.Lower()) // never generated; keeps the projection total
}

// FromPath extracts the projection of an observed path (total: never panics on nil parts).
func FromPath(p *route.Path) Attr {
	var a Attr
	if p == nil {
		return a
	}
	a.LTime = p.LTime
	if p.Type == route.StaticPathType || p.RedistributedFrom == route.StaticPathType {
		a.Static = true
		if p.StaticPath != nil && p.StaticPath.NextHop != nil {
			a.ID = ip4(p.StaticPath.NextHop) - StaticNHBase
		}
	}
	b := p.BGPPath
	if b == nil {
		return a
	}
	a.PathID = b.PathIdentifier
	if x := b.BGPPathA; x != nil {
		a.NextHop, a.Source = ip4(x.NextHop), ip4(x.Source)
		a.LocalPref, a.MED, a.BGPID, a.OriginatorID = x.LocalPref, x.MED, x.BGPIdentifier, x.OriginatorID
		a.EBGP, a.AtomicAgg, a.Origin, a.OTC = x.EBGP, x.AtomicAggregate, x.Origin, x.OnlyToCustomer
		if x.Aggregator != nil {
			a.Aggregator = &[2]uint32{x.Aggregator.Address, uint32(x.Aggregator.ASN)}
		}
	}
	if b.ASPath != nil {
		for _, s := range *b.ASPath {
			if len(s.ASNs) == 0 {
				continue // an empty segment carries nothing
			}
			a.ASPath = append(a.ASPath, Seg{Set: s.Type == types.ASSet, ASNs: append([]uint32{}, s.ASNs...)})
		}
	}
	if b.Communities != nil {
		a.Comms = append([]uint32{}, *b.Communities...)
	}
	if b.LargeCommunities != nil {
		seenID := false
		for _, l := range *b.LargeCommunities {
			if l.GlobalAdministrator == IDTag && !seenID && !a.Static {
				a.ID = l.DataPart1
				seenID = true
				continue
			}
			a.LComms = append(a.LComms, [3]uint32{l.GlobalAdministrator, l.DataPart1, l.DataPart2})
		}
		if !seenID && !a.Static {
			a.NoID = true
		}
	} else if !a.Static {
		a.NoID = true
	}
	if b.ClusterList != nil {
		a.ClusterList = append([]uint32{}, *b.ClusterList...)
	}
	for _, u := range b.UnknownAttributes {
		a.Unknown = append(a.Unknown, Unk{Optional: u.Optional, Transitive: u.Transitive, Partial: u.Partial, Type: u.TypeCode, Value: append([]byte{}, u.Value...)})
	}
	return a
}

// Clone returns a deep copy.
func (a Attr) Clone() Attr {
	c := a
	c.ASPath = nil
	for _, s := range a.ASPath {
		c.ASPath = append(c.ASPath, Seg{Set: s.Set, ASNs: append([]uint32{}, s.ASNs...)})
	}
	c.Comms = append([]uint32(nil), a.Comms...)
	c.LComms = append([][3]uint32(nil), a.LComms...)
	c.ClusterList = append([]uint32(nil), a.ClusterList...)
	if a.Aggregator != nil {
		x := *a.Aggregator
		c.Aggregator = &x
	}
	c.Unknown = nil
	for _, u := range a.Unknown {
		u.Value = append([]byte{}, u.Value...)
		c.Unknown = append(c.Unknown, u)
	}
	return c
}

// Prepend is the reference AS_PATH prepend: the ASN goes in front of the leading AS_SEQUENCE; a new sequence is
// opened when the path is empty or starts with an AS_SET.
func (a *Attr) Prepend(asn uint32, times int) {
	if times <= 0 {
		return
	}
	add := make([]uint32, times)
	for i := range add {
		add[i] = asn
	}
	if len(a.ASPath) == 0 || a.ASPath[0].Set {
		a.ASPath = append([]Seg{{ASNs: add}}, a.ASPath...)
		return
	}
	first := Seg{ASNs: append(add, a.ASPath[0].ASNs...)}
	a.ASPath = append([]Seg{first}, a.ASPath[1:]...)
}

func (a Attr) HasComm(c uint32) bool {
	for _, x := range a.Comms {
		if x == c {
			return true
		}
	}
	return false
}

func ipStr(a uint32) string { return fmt.Sprintf("%d.%d.%d.%d", a>>24, a>>16&255, a>>8&255, a&255) }

func asPathStr(s []Seg) string {
	var parts []string
	for _, x := range s {
		t := fmt.Sprint(x.ASNs)
		if x.Set {
			t = "{" + t[1:len(t)-1] + "}"
		}
		parts = append(parts, t)
	}
	return strings.Join(parts, "")
}

// Field names usable in a comparison mask.
const (
	FNextHop = "nexthop"
	FASPath  = "aspath"
	FLP      = "localpref"
	FMED     = "med"
	FComms   = "communities"
	FOTC     = "otc"
	FOrig    = "originator_id"
	FCL      = "cluster_list"
	FOther   = "passthrough" // origin, large communities, unknown attributes, atomic aggregate, aggregator, source, eBGP flag, BGP identifier
)

// AllFields is the projection used for BGP-learned paths.
var AllFields = []string{FNextHop, FASPath, FLP, FMED, FComms, FOTC, FOrig, FCL, FOther}

// Field renders one field of the projection canonically.
func (a Attr) Field(f string) string {
	switch f {
	case FNextHop:
		return ipStr(a.NextHop)
	case FASPath:
		return asPathStr(a.ASPath)
	case FLP:
		return fmt.Sprint(a.LocalPref)
	case FMED:
		return fmt.Sprint(a.MED)
	case FComms:
		return fmt.Sprintf("%x", a.Comms)
	case FOTC:
		return fmt.Sprint(a.OTC)
	case FOrig:
		return fmt.Sprint(a.OriginatorID)
	case FCL:
		return fmt.Sprint(a.ClusterList)
	case FOther:
		ag := "-"
		if a.Aggregator != nil {
			ag = fmt.Sprint(*a.Aggregator)
		}
		return fmt.Sprintf("origin=%d lc=%v unk=%v aa=%v aggr=%s src=%s ebgp=%v bgpid=%d", a.Origin, a.LComms, a.Unknown, a.AtomicAgg, ag, ipStr(a.Source), a.EBGP, a.BGPID)
	}
	return "?"
}

// DiffFields lists the fields of mask in which a and b differ.
func (a Attr) DiffFields(b Attr, mask []string) []string {
	var out []string
	for _, f := range mask {
		if a.Field(f) != b.Field(f) {
			out = append(out, f)
		}
	}
	return out
}

// Short renders the projection for violation details.
func (a Attr) Short() string {
	if a.Static && a.Source == 0 && len(a.ASPath) == 0 && a.NextHop == 0 {
		return fmt.Sprintf("{id=%d static}", a.ID)
	}
	s := fmt.Sprintf("{id=%d nh=%s as=%s lp=%d med=%d", a.ID, ipStr(a.NextHop), asPathStr(a.ASPath), a.LocalPref, a.MED)
	if a.Static {
		s += " static"
	}
	if len(a.Comms) > 0 {
		s += fmt.Sprintf(" comms=%x", a.Comms)
	}
	if a.OTC != 0 {
		s += fmt.Sprintf(" otc=%d", a.OTC)
	}
	if a.OriginatorID != 0 {
		s += fmt.Sprintf(" orig=%d", a.OriginatorID)
	}
	if len(a.ClusterList) > 0 {
		s += fmt.Sprintf(" cl=%v", a.ClusterList)
	}
	if a.PathID != 0 {
		s += fmt.Sprintf(" pathid=%d", a.PathID)
	}
	if a.Source != 0 {
		s += " src=" + ipStr(a.Source)
	}
	return s + "}"
}

// OrderedList renders several projections in the given order (Loc-RIB order is preference order).
func OrderedList(as []Attr) string {
	var parts []string
	for _, a := range as {
		parts = append(parts, a.Short())
	}
	return "[" + strings.Join(parts, " ") + "]"
}

// ShortList renders several projections sorted by id.
func ShortList(as []Attr) string {
	c := append([]Attr{}, as...)
	sort.SliceStable(c, func(i, j int) bool { return c[i].ID < c[j].ID })
	var parts []string
	for _, a := range c {
		parts = append(parts, a.Short())
	}
	return "[" + strings.Join(parts, " ") + "]"
}
