package rig

import (
	"bytes"
	"encoding/binary"
	"fmt"
	"hash/fnv"
	"sort"

	bnet "github.com/bio-routing/bio-rd/net"
	"github.com/bio-routing/bio-rd/route"

	"verifharness/internal/gen"
)

// Deep snapshot: canonical bytes of every field reachable from a table dump, so that aliasing damage anywhere
// (a shared BGPPathA block, a shared AS-path segment, a shared unknown-attribute value) shows as a byte difference.
// nil and empty containers encode identically: the claim checked is about attribute content.

type enc struct{ b bytes.Buffer }

func (e *enc) u8(v uint8)   { e.b.WriteByte(v) }
func (e *enc) u16(v uint16) { var x [2]byte; binary.BigEndian.PutUint16(x[:], v); e.b.Write(x[:]) }
func (e *enc) u32(v uint32) { var x [4]byte; binary.BigEndian.PutUint32(x[:], v); e.b.Write(x[:]) }
func (e *enc) u64(v uint64) { var x [8]byte; binary.BigEndian.PutUint64(x[:], v); e.b.Write(x[:]) }
func (e *enc) bool(v bool) {
	if v {
		e.u8(1)
	} else {
		e.u8(0)
	}
}
func (e *enc) ip(p *bnet.IP) {
	if p == nil {
		e.u8(0)
		return
	}
	if p.IsIPv4() {
		e.u8(4)
	} else {
		e.u8(6)
	}
	e.u64(p.Higher())
	e.u64(p.Lower())
}

// SnapPath appends the canonical bytes of one path. withPathID=false leaves the add-path identifier out
// (used where two systems may legitimately number their paths differently).
func snapPath(e *enc, p *route.Path, withPathID bool) {
	if p == nil {
		e.u8(0xff)
		return
	}
	e.u8(p.Type)
	e.u8(p.RedistributedFrom)
	e.u8(p.HiddenReason)
	e.u32(p.LTime)
	if p.StaticPath == nil {
		e.u8(0)
	} else {
		e.u8(1)
		e.ip(p.StaticPath.NextHop)
	}
	if p.FIBPath == nil {
		e.u8(0)
	} else {
		e.u8(1)
		e.ip(p.FIBPath.NextHop)
		e.ip(p.FIBPath.Src)
	}
	b := p.BGPPath
	if b == nil {
		e.u8(0)
		return
	}
	e.u8(1)
	if a := b.BGPPathA; a == nil {
		e.u8(0)
	} else {
		e.u8(1)
		e.ip(a.NextHop)
		e.ip(a.Source)
		e.u32(a.LocalPref)
		e.u32(a.MED)
		e.u32(a.BGPIdentifier)
		e.u32(a.OriginatorID)
		if a.Aggregator == nil {
			e.u8(0)
		} else {
			e.u8(1)
			e.u32(a.Aggregator.Address)
			e.u16(a.Aggregator.ASN)
		}
		e.bool(a.EBGP)
		e.bool(a.AtomicAggregate)
		e.u8(a.Origin)
		e.u32(a.OnlyToCustomer)
	}
	if b.ASPath == nil {
		e.u32(0)
	} else {
		e.u32(uint32(len(*b.ASPath)))
		for _, s := range *b.ASPath {
			e.u8(s.Type)
			e.u32(uint32(len(s.ASNs)))
			for _, x := range s.ASNs {
				e.u32(x)
			}
		}
	}
	if b.ClusterList == nil {
		e.u32(0)
	} else {
		e.u32(uint32(len(*b.ClusterList)))
		for _, x := range *b.ClusterList {
			e.u32(x)
		}
	}
	if b.Communities == nil {
		e.u32(0)
	} else {
		e.u32(uint32(len(*b.Communities)))
		for _, x := range *b.Communities {
			e.u32(x)
		}
	}
	if b.LargeCommunities == nil {
		e.u32(0)
	} else {
		e.u32(uint32(len(*b.LargeCommunities)))
		for _, x := range *b.LargeCommunities {
			e.u32(x.GlobalAdministrator)
			e.u32(x.DataPart1)
			e.u32(x.DataPart2)
		}
	}
	e.u32(uint32(len(b.UnknownAttributes)))
	for _, u := range b.UnknownAttributes {
		e.bool(u.Optional)
		e.bool(u.Transitive)
		e.bool(u.Partial)
		e.u8(u.TypeCode)
		e.u32(uint32(len(u.Value)))
		e.b.Write(u.Value)
	}
	if withPathID {
		e.u32(b.PathIdentifier)
	}
	e.u16(b.ASPathLen)
	e.bool(b.BMPPostPolicy)
}

// PathBytes is the deep canonical encoding of one path.
func PathBytes(p *route.Path, withPathID bool) []byte {
	var e enc
	snapPath(&e, p, withPathID)
	return e.b.Bytes()
}

// PathHash is a 64-bit content hash of a path (recorder log).
func PathHash(p *route.Path) uint64 {
	h := fnv.New64a()
	h.Write(PathBytes(p, true))
	return h.Sum64()
}

// TableSnap is a deep snapshot of one table dump.
type TableSnap struct {
	Keys  []string            // sorted prefix keys
	Pfx   map[string]gen.P    // key -> prefix
	Paths map[string][][]byte // key -> deep bytes of each stored path, in stored order
	Desc  map[string][]string // key -> short human description of each path (for violation details)
	Attrs map[string][]Attr   // key -> projection of each path
	NByte int
}

// Snap takes a deep snapshot of a dump.
func Snap(routes []*route.Route, withPathID bool) *TableSnap {
	s := &TableSnap{Pfx: map[string]gen.P{}, Paths: map[string][][]byte{}, Desc: map[string][]string{}, Attrs: map[string][]Attr{}}
	for _, r := range routes {
		if r == nil {
			continue
		}
		p := gen.FromBio(r.Prefix())
		k := p.Key()
		if _, dup := s.Paths[k]; !dup {
			s.Keys = append(s.Keys, k)
		}
		s.Pfx[k] = p
		for _, pa := range r.Paths() {
			b := PathBytes(pa, withPathID)
			s.Paths[k] = append(s.Paths[k], b)
			s.Desc[k] = append(s.Desc[k], describe(pa))
			s.Attrs[k] = append(s.Attrs[k], safeAttr(pa))
			s.NByte += len(b)
		}
		if _, ok := s.Paths[k]; !ok {
			s.Paths[k] = nil
		}
	}
	sort.Strings(s.Keys)
	return s
}

func safeAttr(p *route.Path) (a Attr) {
	defer func() { recover() }()
	return FromPath(p)
}

func describe(p *route.Path) (s string) {
	defer func() {
		if recover() != nil {
			s = "<unprintable path>"
		}
	}()
	a := FromPath(p)
	s = a.Short()
	if p.HiddenReason != 0 {
		s += fmt.Sprintf("(hidden=%d)", p.HiddenReason)
	}
	return s
}

// Bytes concatenates the snapshot canonically.
func (s *TableSnap) Bytes() []byte {
	var e enc
	for _, k := range s.Keys {
		e.u32(uint32(len(k)))
		e.b.WriteString(k)
		e.u32(uint32(len(s.Paths[k])))
		for _, b := range s.Paths[k] {
			e.u32(uint32(len(b)))
			e.b.Write(b)
		}
	}
	return e.b.Bytes()
}

// PfxDiff describes one differing prefix.
type PfxDiff struct {
	Key    string
	Pfx    gen.P
	Before []string
	After  []string
}

func (d PfxDiff) String() string {
	return fmt.Sprintf("%s: before=%v after=%v", d.Pfx, d.Before, d.After)
}

// Diff returns the prefixes whose stored path lists differ byte-wise (ordered comparison), except keys in skip.
func (s *TableSnap) Diff(o *TableSnap, skip map[string]bool) []PfxDiff {
	var out []PfxDiff
	seen := map[string]bool{}
	check := func(k string) {
		if seen[k] || skip[k] {
			return
		}
		seen[k] = true
		a, b := s.Paths[k], o.Paths[k]
		same := len(a) == len(b)
		for i := 0; same && i < len(a); i++ {
			same = bytes.Equal(a[i], b[i])
		}
		_, ina := s.Paths[k]
		_, inb := o.Paths[k]
		if same && ina == inb {
			return
		}
		p, ok := s.Pfx[k]
		if !ok {
			p = o.Pfx[k]
		}
		out = append(out, PfxDiff{Key: k, Pfx: p, Before: s.Desc[k], After: o.Desc[k]})
	}
	for _, k := range s.Keys {
		check(k)
	}
	for _, k := range o.Keys {
		check(k)
	}
	return out
}

// SetDiff compares two snapshots per prefix as multisets of deep path content (order within a prefix ignored).
func (s *TableSnap) SetDiff(o *TableSnap) []PfxDiff {
	var out []PfxDiff
	seen := map[string]bool{}
	check := func(k string) {
		if seen[k] {
			return
		}
		seen[k] = true
		a := sortedBytes(s.Paths[k])
		b := sortedBytes(o.Paths[k])
		same := len(a) == len(b)
		for i := 0; same && i < len(a); i++ {
			same = bytes.Equal(a[i], b[i])
		}
		if same {
			return
		}
		p, ok := s.Pfx[k]
		if !ok {
			p = o.Pfx[k]
		}
		out = append(out, PfxDiff{Key: k, Pfx: p, Before: s.Desc[k], After: o.Desc[k]})
	}
	for _, k := range s.Keys {
		check(k)
	}
	for _, k := range o.Keys {
		check(k)
	}
	return out
}

func sortedBytes(in [][]byte) [][]byte {
	c := append([][]byte{}, in...)
	sort.Slice(c, func(i, j int) bool { return bytes.Compare(c[i], c[j]) < 0 })
	return c
}
