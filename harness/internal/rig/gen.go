package rig

import (
	"math/rand/v2"

	"github.com/bio-routing/bio-rd/protocols/bgp/packet"
	"github.com/bio-routing/bio-rd/protocols/bgp/types"
)

// Src is a peer paths are learned from.
type Src struct {
	Name  string `json:"name"`
	IP    uint32 `json:"ip"`
	ASN   uint32 `json:"asn"`
	Kind  string `json:"kind"` // session kind of the peer (ebgp / ebgp-rs / ibgp / ibgp-rr)
	BGPID uint32 `json:"bgpid"`
}

// Sources is the fixed set of neighbours the workloads learn paths from.
var Sources = []Src{
	{Name: "E1", IP: 0x0A000101, ASN: 65101, Kind: EBGP, BGPID: 0x01010101},
	{Name: "E2", IP: 0x0A000102, ASN: 65102, Kind: EBGP, BGPID: 0x01010102},
	{Name: "I1", IP: 0x0A000201, ASN: 65000, Kind: IBGP, BGPID: 0x02020201},
	{Name: "C1", IP: 0x0A000301, ASN: 65000, Kind: IBGPRR, BGPID: 0x03030301},
}

// PathOpts bounds GenPath.
type PathOpts struct {
	Dedup   bool // sometimes hand over deduplicated attribute blocks
	Unknown bool // sometimes unknown attributes / aggregator / atomic aggregate
	RRAttrs bool // iBGP-learned paths sometimes carry ORIGINATOR_ID / CLUSTER_LIST already
	// WellKnownMix: sometimes several well-known communities on one path, in either order and with a plain community
	// before, between or behind them (a scan of the community list that stops at the first well-known community it
	// meets decides such a path by its order). Draws from the PRNG only when set, so the streams of the checks
	// that do not ask for it stay where they are.
	WellKnownMix bool
}

// GenPath draws the attributes of a path with unique id `id` learned from src.
func GenPath(rng *rand.Rand, id uint32, src Src, o PathOpts) Attr {
	a := Attr{ID: id, Source: src.IP, BGPID: src.BGPID, NextHop: src.IP}
	a.EBGP = src.Kind == EBGP || src.Kind == EBGPRS
	if rng.IntN(5) == 0 {
		a.NextHop = 0xC6336400 + uint32(1+rng.IntN(3)) // third-party next hop 198.51.100.x
	}
	a.LocalPref = []uint32{100, 100, 100, 200, 50}[rng.IntN(5)]
	a.MED = []uint32{0, 0, 10}[rng.IntN(3)]
	a.Origin = uint8(rng.IntN(3))
	n := 1 + rng.IntN(3)
	var asns []uint32
	if a.EBGP {
		asns = append(asns, src.ASN)
	}
	for len(asns) < n {
		asns = append(asns, 64700+uint32(rng.IntN(20)))
	}
	if !a.EBGP && rng.IntN(4) == 0 {
		asns = nil // originated inside the local AS
	}
	if len(asns) > 0 {
		a.ASPath = []Seg{{ASNs: asns}}
		if rng.IntN(8) == 0 {
			a.ASPath = append(a.ASPath, Seg{Set: true, ASNs: []uint32{64750, 64751}})
		}
	}
	switch rng.IntN(12) {
	case 0, 1:
		a.Comms = []uint32{65000<<16 | uint32(rng.IntN(4))}
	case 2:
		a.Comms = []uint32{types.WellKnownCommunityNoExport}
	case 3:
		a.Comms = []uint32{types.WellKnownCommunityNoAdvertise}
	case 4:
		a.Comms = []uint32{65000<<16 | 9, types.WellKnownCommunityNoExport}
	}
	if o.WellKnownMix && rng.IntN(8) == 0 {
		ne, na, plain := uint32(types.WellKnownCommunityNoExport), uint32(types.WellKnownCommunityNoAdvertise), 65000<<16|uint32(5+rng.IntN(3))
		a.Comms = [][]uint32{{ne, na}, {na, ne}, {plain, ne, na}, {ne, plain, na}, {na, plain, ne}, {ne, na, plain}}[rng.IntN(6)]
	}
	if rng.IntN(6) == 0 {
		a.LComms = [][3]uint32{{65000, uint32(rng.IntN(3)), 7}}
	}
	switch rng.IntN(10) {
	case 0:
		a.OTC = DefaultLocal.ASN
	case 1:
		a.OTC = 64666
	}
	if o.RRAttrs && !a.EBGP && rng.IntN(3) == 0 {
		a.OriginatorID = 0x0A0A0A00 + uint32(rng.IntN(3))
		a.ClusterList = []uint32{0x0B0B0B0B}
		if rng.IntN(2) == 0 {
			a.ClusterList = append(a.ClusterList, 0x0C0C0C0C)
		}
	}
	if o.Unknown {
		switch rng.IntN(8) {
		case 0:
			a.Unknown = []Unk{{Optional: true, Transitive: true, Type: 200 + uint8(rng.IntN(3)), Value: []byte{1, 2, byte(rng.IntN(4))}}}
		case 1:
			a.AtomicAgg = true
			a.Aggregator = &[2]uint32{0x0A090909, 64999}
		}
	}
	if o.Dedup && rng.IntN(3) == 0 {
		a.Dedup = true
	}
	return a
}

// GenSessions draws n target sessions. A target peer is often one of the sources (so that "back to the sender"
// is exercised) and otherwise a neighbour nothing is learned from.
func GenSessions(rng *rand.Rand, n int, addPaths []uint) []Sess {
	var out []Sess
	used := map[uint32]bool{}
	for len(out) < n {
		kind := Kinds[rng.IntN(len(Kinds))]
		s := Sess{Kind: kind}
		var cands []Src
		for _, src := range Sources {
			if src.Kind == kind || (kind == EBGPRS && src.Kind == EBGP) {
				cands = append(cands, src)
			}
		}
		if len(cands) > 0 && rng.IntN(5) < 3 {
			c := cands[rng.IntN(len(cands))]
			s.Peer, s.PeerASN = c.IP, c.ASN
		} else {
			s.Peer = 0x0A000900 + uint32(1+len(out))
			s.PeerASN = 65200 + uint32(len(out))
			if s.IBGP() {
				s.PeerASN = DefaultLocal.ASN
			}
		}
		if used[s.Peer] {
			continue
		}
		used[s.Peer] = true
		s.AddPath = addPaths[rng.IntN(len(addPaths))]
		if !s.IBGP() && rng.IntN(5) < 2 {
			s.Role = &Role{Enabled: true, AdvByPeer: true, Remote: uint8(rng.IntN(5))}
			// the local role that pairs with the remote one
			s.Role.Local = map[uint8]uint8{packet.PeerRoleRoleProvider: packet.PeerRoleRoleCustomer, packet.PeerRoleRoleCustomer: packet.PeerRoleRoleProvider,
				packet.PeerRoleRoleRS: packet.PeerRoleRoleRSClient, packet.PeerRoleRoleRSClient: packet.PeerRoleRoleRS, packet.PeerRoleRolePeer: packet.PeerRoleRolePeer}[s.Role.Remote]
		}
		out = append(out, s)
	}
	return out
}
