package rig

import (
	"fmt"

	"github.com/bio-routing/bio-rd/protocols/bgp/packet"
	"github.com/bio-routing/bio-rd/protocols/bgp/types"
	"github.com/bio-routing/bio-rd/route"

	"verifharness/internal/gen"
)

// The export rule table: a literal transcription of the statement of C09.
//
//   never advertised:   (R1) with NO_ADVERTISE
//                       (R2) with NO_EXPORT to an eBGP peer
//                       (R3) back to the peer it came from
//                       (R4) from one iBGP peer to a non-client iBGP peer
//                       (R5) with an OTC attribute to a provider, peer or route server
//   rewrites:           (W1) to eBGP peers that are not RS clients: local ASN prepended, local address as next hop
//                       (W2) reflected to RR clients: ORIGINATOR_ID present, CLUSTER_LIST starts with the local cluster id
//                       (W3) OTC added towards customers, peers and RS clients
//                       (W4) LOCAL_PREF only sent to iBGP peers (a wire fact: not visible in the table)
//
// Where the statement is silent the reference accepts every outcome: RR attributes on a route that is not
// reflected (eBGP-learned, redistributed) sent to an RR client; AS_PATH / next hop towards an RS client.

// Excluded returns the rule that forbids advertising path a (as stored in the Loc-RIB) on session s, or "".
func Excluded(l Local, s Sess, a Attr) string {
	if a.HasComm(types.WellKnownCommunityNoAdvertise) {
		return "R1:no-advertise"
	}
	if a.HasComm(types.WellKnownCommunityNoExport) && !s.IBGP() {
		return "R2:no-export-to-ebgp"
	}
	if !a.Static && a.Source == s.Peer {
		return "R3:back-to-sender"
	}
	if !a.Static && !a.EBGP && s.Kind == IBGP {
		return "R4:ibgp-to-nonclient-ibgp"
	}
	if a.OTC != 0 && s.Role.Known() && !s.IBGP() {
		switch s.Role.Remote {
		case packet.PeerRoleRoleProvider, packet.PeerRoleRolePeer, packet.PeerRoleRoleRS:
			return "R5:otc-to-" + RoleNames[s.Role.Remote]
		}
	}
	return ""
}

// Want is what the rules require of an admitted path; each field is checked on the observed projection.
type Want struct {
	Base Attr // the path with every unconditional rewrite applied

	PrependOptional bool // RS client: the local ASN may or may not be prepended
	NextHopOptional bool // RS client: next hop may be the original or the local address
	RRRequired      bool // reflected to an RR client: ORIGINATOR_ID and CLUSTER_LIST required
	RRPermitted     bool // RR client but not a reflected route: RR attributes merely permitted
	StaticDefaults  bool // redistributed: attribute defaults are bio-rd's choice
}

// Rewrite applies the rule table's rewrites to an admitted path.
func Rewrite(l Local, s Sess, a Attr) Want {
	w := Want{Base: a.Clone()}
	b := &w.Base
	if a.Static {
		// a redistributed static route: fresh BGP attributes, next hop of the static route
		*b = Attr{ID: a.ID, Static: true, NextHop: StaticNHBase + a.ID}
		w.StaticDefaults = true
	}
	switch s.Kind {
	case EBGP:
		b.Prepend(l.ASN, 1) // W1
		b.NextHop = l.IP
	case EBGPRS:
		w.PrependOptional, w.NextHopOptional = true, true
	case IBGPRR:
		if !a.Static && !a.EBGP {
			w.RRRequired = true // W2
		} else {
			w.RRPermitted = true
		}
	}
	if !s.IBGP() && s.Role.Known() && b.OTC == 0 { // W3
		switch s.Role.Remote {
		case packet.PeerRoleRoleCustomer, packet.PeerRoleRolePeer, packet.PeerRoleRoleRSClient:
			b.OTC = l.ASN
		}
	}
	return w
}

// variant is one admissible combination of the optional session rewrites.
type variant struct{ prepend, nhSelf, cluster bool }

func variants(s Sess, w Want) []variant {
	switch s.Kind {
	case EBGP:
		return []variant{{prepend: true, nhSelf: true}}
	case EBGPRS:
		return []variant{{}, {prepend: true}, {nhSelf: true}, {prepend: true, nhSelf: true}}
	case IBGPRR:
		if w.RRRequired {
			return []variant{{cluster: true}}
		}
		return []variant{{}, {cluster: true}}
	}
	return []variant{{}}
}

func (v variant) apply(l Local, s Sess, x Attr) Attr {
	x = x.Clone()
	if v.prepend {
		x.Prepend(l.ASN, 1)
	}
	if v.nhSelf {
		x.NextHop = l.IP
	}
	if v.cluster {
		x.ClusterList = append([]uint32{l.ClusterID}, x.ClusterList...)
	}
	if !s.IBGP() && s.Role.Known() && x.OTC == 0 {
		switch s.Role.Remote {
		case packet.PeerRoleRoleCustomer, packet.PeerRoleRolePeer, packet.PeerRoleRoleRSClient:
			x.OTC = l.ASN
		}
	}
	return x
}

// Candidates enumerates the projections the statement admits for one exported path after the export policy.
// The statement does not fix whether the policy sees the path before or after the session's rewrites, so both
// orders are admitted when they differ. No candidates = not advertised (why says which rule or the policy).
// mask = fields to compare.
func Candidates(l Local, s Sess, pol Policy, pfx gen.P, a Attr) (cands []Attr, mask []string, why string) {
	return candidates(l, s, pol, pfx, a, true)
}

// CandidatesPolicyLast is Candidates with the order fixed the way the export view is defined (DESIGN section 4, C08:
// the export function, then the policy interpreter; exportPath's own contract; the policy documentation: next_hop
// is the "IP address to be used as a next-hop for the route"): the export policy runs on the path as the session
// rewrote it and has the last word. A next hop it sets is the advertised next hop, the ASNs it prepends stand in
// front of the local ASN. The session's rewrites are never applied on top of the policy's output.
func CandidatesPolicyLast(l Local, s Sess, pol Policy, pfx gen.P, a Attr) (cands []Attr, mask []string, why string) {
	return candidates(l, s, pol, pfx, a, false)
}

// OrderMatters reports whether, for this admitted path on this session, "session rewrites, then policy" and "policy,
// then session rewrites" give different projections under every admissible variant of the rewrites (the policy sets
// the next hop or prepends to the AS_PATH on a session that rewrites them too).
func OrderMatters(l Local, s Sess, pol Policy, pfx gen.P, a Attr) bool {
	if Excluded(l, s, a) != "" || !pol.Modifies() {
		return false
	}
	w := Rewrite(l, s, a)
	pre := a.Clone()
	if a.Static {
		pre = Attr{ID: a.ID, Static: true, NextHop: StaticNHBase + a.ID}
	}
	polOut, rej, touched := pol.Eval(pfx, pre, route.BGPPathType, true)
	if rej || !(touched[FNextHop] || touched[FASPath]) {
		return false
	}
	var first, last []Attr
	for _, v := range variants(s, w) {
		o1, _, _ := pol.Eval(pfx, v.apply(l, s, pre), route.BGPPathType, true)
		last = append(last, o1)
		first = append(first, v.apply(l, s, polOut))
	}
	for _, x := range first {
		for _, y := range last {
			if len(x.DiffFields(y, []string{FNextHop, FASPath})) == 0 {
				return false
			}
		}
	}
	return true
}

func candidates(l Local, s Sess, pol Policy, pfx gen.P, a Attr, bothOrders bool) (cands []Attr, mask []string, why string) {
	if r := Excluded(l, s, a); r != "" {
		return nil, nil, r
	}
	w := Rewrite(l, s, a)
	pre := a.Clone()
	if a.Static {
		pre = Attr{ID: a.ID, Static: true, NextHop: StaticNHBase + a.ID}
	}
	polOut, rej, touched := pol.Eval(pfx, pre, route.BGPPathType, true)
	if rej {
		return nil, nil, "policy-reject"
	}
	for _, v := range variants(s, w) {
		o1, _, _ := pol.Eval(pfx, v.apply(l, s, pre), route.BGPPathType, true) // rewrites, then policy
		cands = append(cands, o1)
		if bothOrders && (touched[FNextHop] || touched[FASPath]) {
			cands = append(cands, v.apply(l, s, polOut)) // policy, then rewrites
		}
	}
	if w.StaticDefaults {
		mask = []string{FNextHop, FASPath, FOTC}
		for _, f := range []string{FLP, FMED} {
			if touched[f] {
				mask = append(mask, f)
			}
		}
	} else {
		mask = AllFields
	}
	return cands, mask, ""
}

// ExportForm is the projection a path would be advertised with on the session if it were admitted (first admissible
// variant, rewrites before policy); it is used to tell whether a session transforms a path at all.
func ExportForm(l Local, s Sess, pol Policy, pfx gen.P, a Attr) Attr {
	w := Rewrite(l, s, a)
	pre := a.Clone()
	if a.Static {
		pre = Attr{ID: a.ID, Static: true, NextHop: StaticNHBase + a.ID}
	}
	vs := variants(s, w)
	v := vs[0]
	if s.Kind == IBGPRR && !w.RRRequired {
		v = vs[1] // bio-rd adds the RR attributes whenever the target is a client
	}
	out, _, _ := pol.Eval(pfx, v.apply(l, s, pre), route.BGPPathType, true)
	return out
}

// Transform names what exporting does to path a on the session: "static" (redistributed), "rewritten" (some
// attribute changes) or "same".
func Transform(l Local, s Sess, pol Policy, pfx gen.P, a Attr) string {
	if a.Static {
		return "static"
	}
	if len(a.DiffFields(ExportForm(l, s, pol, pfx, a), AllFields)) > 0 {
		return "rewritten"
	}
	return "same"
}

// MatchObserved decides whether the observed projection is one the statement admits for Loc-RIB path a.
// It returns "" or the list of differing fields against the closest candidate.
func MatchObserved(l Local, s Sess, a Attr, obs Attr, cands []Attr, mask []string) (diff []string, closest Attr) {
	w := Rewrite(l, s, a)
	best := -1
	for _, c := range cands {
		d := c.DiffFields(obs, mask)
		// ORIGINATOR_ID: the statement requires presence on reflected routes and is silent otherwise
		var keep []string
		for _, f := range d {
			if f == FOrig {
				if w.RRRequired && obs.OriginatorID != 0 {
					continue
				}
				if w.RRPermitted {
					continue
				}
			}
			keep = append(keep, f)
		}
		if w.RRRequired && obs.OriginatorID == 0 {
			keep = appendUnique(keep, FOrig)
		}
		if len(keep) == 0 {
			return nil, c
		}
		if best < 0 || len(keep) < best {
			best, diff, closest = len(keep), keep, c
		}
	}
	return diff, closest
}

func appendUnique(s []string, x string) []string {
	for _, y := range s {
		if y == x {
			return s
		}
	}
	return append(s, x)
}

// SourceKind classifies where a Loc-RIB path came from (violation features / evidence).
func SourceKind(a Attr) string {
	switch {
	case a.Static:
		return "static"
	case a.EBGP:
		return "ebgp-learned"
	}
	return "ibgp-learned"
}

func (s Sess) String() string {
	ap := "best"
	if s.AddPath > 0 {
		ap = fmt.Sprintf("addpath%d", s.AddPath)
	}
	return fmt.Sprintf("%s/%s/peer=%s/role=%s", s.Kind, ap, ipStr(s.Peer), s.Role.String())
}
