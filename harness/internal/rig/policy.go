package rig

import (
	"fmt"
	"math/rand/v2"
	"runtime"
	"strings"
	"sync"
	"time"

	bnet "github.com/bio-routing/bio-rd/net"
	"github.com/bio-routing/bio-rd/route"
	"github.com/bio-routing/bio-rd/routingtable/filter"
	"github.com/bio-routing/bio-rd/routingtable/filter/actions"

	"verifharness/internal/gen"
)

// The policy grammar covers exactly what the exported constructors of filter / filter/actions can build:
// chain = filters; filter = terms; term = conditions (any one must match; none = always) + actions;
// condition = prefix lists (exact), route filters (exact / orlonger / longer / range) and protocols, ANDed,
// each part ORed over its entries; actions = accept, reject, set LOCAL_PREF, set MED, set next hop, AS-path prepend.
// (AddCommunityAction / AddLargeCommunityAction do not implement actions.Action and community filters have no
// constructor, so they cannot appear in a chain built from outside the package.)

type RF struct {
	Pattern gen.P  `json:"pattern"`
	Matcher string `json:"matcher"` // exact | orlonger | longer | range
	Min     uint8  `json:"min,omitempty"`
	Max     uint8  `json:"max,omitempty"`
}

type Cond struct {
	PrefixLists  [][]gen.P `json:"prefix_lists,omitempty"`
	RouteFilters []RF      `json:"route_filters,omitempty"`
	Protocols    []uint8   `json:"protocols,omitempty"`
}

type Act struct {
	Kind  string `json:"kind"` // accept | reject | localpref | med | nexthop | prepend
	V     uint32 `json:"v,omitempty"`
	Times uint16 `json:"times,omitempty"`
}

type Term struct {
	From []Cond `json:"from,omitempty"`
	Then []Act  `json:"then"`
}

type Filter struct {
	Terms []Term `json:"terms"`
}

// Policy is a filter chain.
type Policy struct {
	Filters []Filter `json:"filters"`
}

// AcceptAll is the chain with one unconditional accept.
func AcceptAll() Policy {
	return Policy{Filters: []Filter{{Terms: []Term{{Then: []Act{{Kind: "accept"}}}}}}}
}

// RejectAll is the chain with one unconditional reject.
func RejectAll() Policy {
	return Policy{Filters: []Filter{{Terms: []Term{{Then: []Act{{Kind: "reject"}}}}}}}
}

// Build constructs the bio-rd chain (fresh objects each time).
func (p Policy) Build(pool *IPPool) filter.Chain {
	c := filter.Chain{}
	for fi, f := range p.Filters {
		var terms []*filter.Term
		for ti, t := range f.Terms {
			var from []*filter.TermCondition
			for _, cd := range t.From {
				var pls []*filter.PrefixList
				for _, pl := range cd.PrefixLists {
					var ps []*bnet.Prefix
					for _, x := range pl {
						ps = append(ps, x.Bio())
					}
					pls = append(pls, filter.NewPrefixList(ps...))
				}
				var rfs []*filter.RouteFilter
				for _, rf := range cd.RouteFilters {
					var m filter.PrefixMatcher
					switch rf.Matcher {
					case "exact":
						m = filter.NewExactMatcher()
					case "orlonger":
						m = filter.NewOrLongerMatcher()
					case "longer":
						m = filter.NewLongerMatcher()
					default:
						m = filter.NewInRangeMatcher(rf.Min, rf.Max)
					}
					rfs = append(rfs, filter.NewRouteFilter(rf.Pattern.Bio(), m))
				}
				var tc *filter.TermCondition
				if len(cd.Protocols) > 0 && len(pls) == 0 && len(rfs) == 0 {
					tc = filter.NewTermConditionWithProtocols(cd.Protocols...)
				} else {
					// protocols can only be combined with nothing else through the constructors
					tc = filter.NewTermCondition(pls, rfs)
				}
				from = append(from, tc)
			}
			var then []actions.Action
			for _, a := range t.Then {
				switch a.Kind {
				case "accept":
					then = append(then, actions.NewAcceptAction())
				case "reject":
					then = append(then, actions.NewRejectAction())
				case "localpref":
					then = append(then, actions.NewSetLocalPrefAction(a.V))
				case "med":
					then = append(then, actions.NewSetMEDAction(a.V))
				case "nexthop":
					then = append(then, actions.NewSetNextHopAction(pool.IP(a.V)))
				case "prepend":
					then = append(then, actions.NewASPathPrependAction(a.V, a.Times))
				}
			}
			terms = append(terms, filter.NewTerm(fmt.Sprintf("t%d", ti), from, then))
		}
		c = append(c, filter.NewFilter(fmt.Sprintf("f%d", fi), terms))
	}
	return c
}

func (rf RF) matches(p gen.P) bool {
	if rf.Pattern.V4 != p.V4 {
		return false
	}
	eq := rf.Pattern.Canon() == p.Canon()
	covers := rf.Pattern.Covers(p)
	switch rf.Matcher {
	case "exact":
		return eq
	case "orlonger":
		return covers
	case "longer":
		return covers && p.Len > rf.Pattern.Len
	default:
		return covers && p.Len >= rf.Min && p.Len <= rf.Max
	}
}

func (c Cond) matches(p gen.P, pathType uint8) bool {
	if len(c.Protocols) > 0 && len(c.PrefixLists) == 0 && len(c.RouteFilters) == 0 {
		for _, x := range c.Protocols {
			if x == pathType {
				return true
			}
		}
		return false
	}
	if len(c.PrefixLists) > 0 {
		ok := false
		for _, pl := range c.PrefixLists {
			for _, x := range pl {
				if x.Canon() == p.Canon() {
					ok = true
				}
			}
		}
		if !ok {
			return false
		}
	}
	if len(c.RouteFilters) > 0 {
		ok := false
		for _, rf := range c.RouteFilters {
			if rf.matches(p) {
				ok = true
			}
		}
		if !ok {
			return false
		}
	}
	return true
}

// Eval is the reference interpreter: filters in order, terms in order, a term applies when it has no condition
// or any condition matches, actions in order, accept/reject end the evaluation, falling off the end accepts.
// pathType is the protocol the policy sees (route.BGPPathType on the export side). The attribute actions only
// act on BGP attributes; a path without them (isBGP=false) passes unchanged.
func (p Policy) Eval(pfx gen.P, a Attr, pathType uint8, isBGP bool) (out Attr, reject bool, touched map[string]bool) {
	out = a.Clone()
	touched = map[string]bool{}
	for _, f := range p.Filters {
		for _, t := range f.Terms {
			apply := len(t.From) == 0
			for _, c := range t.From {
				if c.matches(pfx, pathType) {
					apply = true
					break
				}
			}
			if !apply {
				continue
			}
			for _, ac := range t.Then {
				switch ac.Kind {
				case "accept":
					return out, false, touched
				case "reject":
					return out, true, touched
				case "localpref":
					if isBGP {
						out.LocalPref = ac.V
						touched[FLP] = true
					}
				case "med":
					if isBGP {
						out.MED = ac.V
						touched[FMED] = true
					}
				case "nexthop":
					if isBGP {
						out.NextHop = ac.V
						touched[FNextHop] = true
					}
				case "prepend":
					if isBGP {
						out.Prepend(ac.V, int(ac.Times))
						touched[FASPath] = true
					}
				}
			}
		}
	}
	return out, false, touched
}

// Modifies reports whether the policy contains an attribute-changing action.
func (p Policy) Modifies() bool {
	for _, f := range p.Filters {
		for _, t := range f.Terms {
			for _, a := range t.Then {
				if a.Kind != "accept" && a.Kind != "reject" {
					return true
				}
			}
		}
	}
	return false
}

// Rejects reports whether the policy contains a reject action.
func (p Policy) Rejects() bool {
	for _, f := range p.Filters {
		for _, t := range f.Terms {
			for _, a := range t.Then {
				if a.Kind == "reject" {
					return true
				}
			}
		}
	}
	return false
}

// Class names the policy shape for evidence and violation features.
func (p Policy) Class() string {
	switch {
	case p.Modifies() && p.Rejects():
		return "rewrite+reject"
	case p.Modifies():
		return "rewrite"
	case p.Rejects():
		return "reject-some"
	}
	return "accept"
}

func (p Policy) String() string {
	var fs []string
	for _, f := range p.Filters {
		var ts []string
		for _, t := range f.Terms {
			var cs []string
			for _, c := range t.From {
				var parts []string
				for _, pl := range c.PrefixLists {
					parts = append(parts, fmt.Sprintf("pl%v", pl))
				}
				for _, rf := range c.RouteFilters {
					if rf.Matcher == "range" {
						parts = append(parts, fmt.Sprintf("%s range %d-%d", rf.Pattern, rf.Min, rf.Max))
					} else {
						parts = append(parts, fmt.Sprintf("%s %s", rf.Pattern, rf.Matcher))
					}
				}
				if len(c.Protocols) > 0 {
					parts = append(parts, fmt.Sprintf("proto%v", c.Protocols))
				}
				cs = append(cs, strings.Join(parts, " & "))
			}
			var as []string
			for _, a := range t.Then {
				switch a.Kind {
				case "accept", "reject":
					as = append(as, a.Kind)
				case "nexthop":
					as = append(as, "nexthop "+ipStr(a.V))
				case "prepend":
					as = append(as, fmt.Sprintf("prepend %dx%d", a.V, a.Times))
				default:
					as = append(as, fmt.Sprintf("%s %d", a.Kind, a.V))
				}
			}
			from := "always"
			if len(cs) > 0 {
				from = strings.Join(cs, " | ")
			}
			ts = append(ts, "if "+from+" then "+strings.Join(as, ", "))
		}
		fs = append(fs, "{"+strings.Join(ts, "; ")+"}")
	}
	return strings.Join(fs, " -> ")
}

// ---------------------------------------------------------------------------------------------------------
// generators

// GenOpts bounds the policy generator.
type GenOpts struct {
	Protocols bool // allow protocol conditions
	NoModify  bool // only accept/reject
	NoReject  bool
}

func genCond(rng *rand.Rand, uni []gen.P, o GenOpts) Cond {
	if o.Protocols && rng.IntN(6) == 0 {
		return Cond{Protocols: []uint8{[]uint8{route.StaticPathType, route.BGPPathType}[rng.IntN(2)]}}
	}
	var c Cond
	pick := func() gen.P { return uni[rng.IntN(len(uni))] }
	if rng.IntN(3) == 0 {
		n := 1 + rng.IntN(2)
		for i := 0; i < n; i++ {
			var pl []gen.P
			for j := 0; j < 1+rng.IntN(3); j++ {
				pl = append(pl, pick())
			}
			c.PrefixLists = append(c.PrefixLists, pl)
		}
	}
	if len(c.PrefixLists) == 0 || rng.IntN(3) == 0 {
		n := 1 + rng.IntN(2)
		for i := 0; i < n; i++ {
			p := pick()
			// widen the pattern so that it covers several universe prefixes
			if p.Len > 0 && rng.IntN(2) == 0 {
				p.Len = uint8(rng.IntN(int(p.Len) + 1))
				p = p.Canon()
			}
			rf := RF{Pattern: p, Matcher: []string{"exact", "orlonger", "longer", "range"}[rng.IntN(4)]}
			if rf.Matcher == "range" {
				w := p.Width()
				mn := int(p.Len) + rng.IntN(3)
				if mn > w {
					mn = w
				}
				rf.Min = uint8(mn)
				rf.Max = uint8(mn + rng.IntN(w-mn+1))
			}
			c.RouteFilters = append(c.RouteFilters, rf)
		}
	}
	return c
}

func genAct(rng *rand.Rand, o GenOpts) Act {
	for {
		switch rng.IntN(6) {
		case 0:
			return Act{Kind: "accept"}
		case 1:
			if !o.NoReject {
				return Act{Kind: "reject"}
			}
		case 2:
			if !o.NoModify {
				return Act{Kind: "localpref", V: []uint32{50, 100, 200, 300}[rng.IntN(4)]}
			}
		case 3:
			if !o.NoModify {
				return Act{Kind: "med", V: []uint32{0, 10, 20}[rng.IntN(3)]}
			}
		case 4:
			if !o.NoModify {
				return Act{Kind: "nexthop", V: 0xC0000200 + uint32(1+rng.IntN(3))} // 192.0.2.x
			}
		case 5:
			if !o.NoModify {
				return Act{Kind: "prepend", V: 64900 + uint32(rng.IntN(2)), Times: uint16(1 + rng.IntN(2))}
			}
		}
	}
}

// GenPolicy draws a chain over the prefix universe.
func GenPolicy(rng *rand.Rand, uni []gen.P, o GenOpts) Policy {
	var p Policy
	nf := 1 + rng.IntN(2)
	for i := 0; i < nf; i++ {
		var f Filter
		nt := 1 + rng.IntN(3)
		for j := 0; j < nt; j++ {
			var t Term
			if rng.IntN(5) != 0 {
				for k := 0; k < 1+rng.IntN(2); k++ {
					t.From = append(t.From, genCond(rng, uni, o))
				}
			}
			na := 1 + rng.IntN(2)
			for k := 0; k < na; k++ {
				a := genAct(rng, o)
				t.Then = append(t.Then, a)
				if a.Kind == "accept" || a.Kind == "reject" {
					break
				}
			}
			f.Terms = append(f.Terms, t)
		}
		p.Filters = append(p.Filters, f)
	}
	return p
}

func (p Policy) clone() Policy {
	var q Policy
	for _, f := range p.Filters {
		var g Filter
		for _, t := range f.Terms {
			var u Term
			for _, c := range t.From {
				var d Cond
				for _, pl := range c.PrefixLists {
					d.PrefixLists = append(d.PrefixLists, append([]gen.P{}, pl...))
				}
				d.RouteFilters = append([]RF{}, c.RouteFilters...)
				d.Protocols = append([]uint8{}, c.Protocols...)
				u.From = append(u.From, d)
			}
			u.Then = append([]Act{}, t.Then...)
			g.Terms = append(g.Terms, u)
		}
		q.Filters = append(q.Filters, g)
	}
	return q
}

// Mutate returns a policy that differs from p in one small way and names the kind of difference:
// action-value, nexthop, bound (a route-filter length bound or matcher), prefix-list, protocol, term-order, accept-reject.
// ok=false when the policy has no place for the drawn mutation.
func Mutate(rng *rand.Rand, p Policy, uni []gen.P) (q Policy, kind string, ok bool) {
	q = p.clone()
	type loc struct{ f, t, i int }
	var acts, conds []loc
	for fi, f := range q.Filters {
		for ti, t := range f.Terms {
			for ai := range t.Then {
				acts = append(acts, loc{fi, ti, ai})
			}
			for ci := range t.From {
				conds = append(conds, loc{fi, ti, ci})
			}
		}
	}
	switch rng.IntN(7) {
	case 0, 1: // one action value
		var c []loc
		for _, l := range acts {
			k := q.Filters[l.f].Terms[l.t].Then[l.i].Kind
			if k == "localpref" || k == "med" || k == "prepend" || k == "nexthop" {
				c = append(c, l)
			}
		}
		if len(c) == 0 {
			return q, "", false
		}
		l := c[rng.IntN(len(c))]
		a := &q.Filters[l.f].Terms[l.t].Then[l.i]
		switch a.Kind {
		case "localpref":
			a.V += 100
			return q, "action-value:localpref", true
		case "med":
			a.V += 5
			return q, "action-value:med", true
		case "nexthop":
			a.V ^= 4
			return q, "action-value:nexthop", true
		default:
			if rng.IntN(2) == 0 {
				a.Times++
			} else {
				a.V++
			}
			return q, "action-value:prepend", true
		}
	case 2: // accept <-> reject
		var c []loc
		for _, l := range acts {
			k := q.Filters[l.f].Terms[l.t].Then[l.i].Kind
			if k == "accept" || k == "reject" {
				c = append(c, l)
			}
		}
		if len(c) == 0 {
			return q, "", false
		}
		l := c[rng.IntN(len(c))]
		a := &q.Filters[l.f].Terms[l.t].Then[l.i]
		if a.Kind == "accept" {
			a.Kind = "reject"
		} else {
			a.Kind = "accept"
		}
		return q, "accept-reject", true
	case 3: // route filter bound / matcher / pattern
		var c []loc
		for _, l := range conds {
			if len(q.Filters[l.f].Terms[l.t].From[l.i].RouteFilters) > 0 {
				c = append(c, l)
			}
		}
		if len(c) == 0 {
			return q, "", false
		}
		l := c[rng.IntN(len(c))]
		rfs := q.Filters[l.f].Terms[l.t].From[l.i].RouteFilters
		rf := &rfs[rng.IntN(len(rfs))]
		switch rng.IntN(3) {
		case 0:
			if rf.Matcher == "range" {
				if rf.Max > rf.Min {
					rf.Max--
				} else {
					rf.Max++
				}
				return q, "bound:range", true
			}
			old := rf.Matcher
			for rf.Matcher == old {
				rf.Matcher = []string{"exact", "orlonger", "longer"}[rng.IntN(3)]
			}
			return q, "bound:matcher", true
		case 1:
			old := rf.Pattern
			for i := 0; i < 8 && rf.Pattern == old; i++ {
				rf.Pattern = uni[rng.IntN(len(uni))]
			}
			if rf.Matcher == "range" && rf.Min < rf.Pattern.Len {
				rf.Min = rf.Pattern.Len
				if rf.Max < rf.Min {
					rf.Max = rf.Min
				}
			}
			return q, "bound:pattern", rf.Pattern != old
		default:
			if rf.Pattern.Len == 0 {
				return q, "", false
			}
			rf.Pattern.Len--
			rf.Pattern = rf.Pattern.Canon()
			return q, "bound:pattern-length", true
		}
	case 4: // prefix list entry
		var c []loc
		for _, l := range conds {
			if len(q.Filters[l.f].Terms[l.t].From[l.i].PrefixLists) > 0 {
				c = append(c, l)
			}
		}
		if len(c) == 0 {
			return q, "", false
		}
		l := c[rng.IntN(len(c))]
		pls := q.Filters[l.f].Terms[l.t].From[l.i].PrefixLists
		pl := pls[rng.IntN(len(pls))]
		i := rng.IntN(len(pl))
		old := pl[i]
		for k := 0; k < 8 && pl[i] == old; k++ {
			pl[i] = uni[rng.IntN(len(uni))]
		}
		return q, "prefix-list", pl[i] != old
	case 5: // protocol
		var c []loc
		for _, l := range conds {
			if len(q.Filters[l.f].Terms[l.t].From[l.i].Protocols) > 0 {
				c = append(c, l)
			}
		}
		if len(c) == 0 {
			return q, "", false
		}
		l := c[rng.IntN(len(c))]
		pr := q.Filters[l.f].Terms[l.t].From[l.i].Protocols
		pr[0] = route.StaticPathType + route.BGPPathType - pr[0]
		return q, "protocol", true
	default: // order of two terms
		var c []int
		for fi, f := range q.Filters {
			if len(f.Terms) >= 2 {
				c = append(c, fi)
			}
		}
		if len(c) == 0 {
			return q, "", false
		}
		f := &q.Filters[c[rng.IntN(len(c))]]
		i := rng.IntN(len(f.Terms) - 1)
		f.Terms[i], f.Terms[i+1] = f.Terms[i+1], f.Terms[i]
		return q, "term-order", true
	}
}

// ---------------------------------------------------------------------------------------------------------

func shortStack() string {
	buf := make([]byte, 16384)
	buf = buf[:runtime.Stack(buf, false)]
	lines := strings.Split(string(buf), "\n")
	var keep []string
	for i := 0; i < len(lines) && len(keep) < 12; i++ {
		l := lines[i]
		if strings.Contains(l, "bio-rd/") && !strings.HasPrefix(l, "\t") {
			keep = append(keep, strings.TrimSpace(l))
			if i+1 < len(lines) {
				loc := strings.TrimSpace(lines[i+1])
				if j := strings.Index(loc, " +0x"); j > 0 {
					loc = loc[:j]
				}
				keep = append(keep, "    "+loc)
			}
		}
	}
	return strings.Join(keep, "\n")
}

// PanicSite extracts "func (file:line)" of the innermost bio-rd frame from a Guard result, for violation features.
func PanicSite(g string) string {
	lines := strings.Split(g, "\n")
	for i := 1; i+1 < len(lines); i++ {
		if strings.Contains(lines[i], "bio-rd/") && !strings.HasPrefix(lines[i], "    ") {
			fn := lines[i]
			if j := strings.LastIndex(fn, "/"); j >= 0 {
				fn = fn[j+1:]
			}
			if j := strings.Index(fn, "("); j > 0 && !strings.HasPrefix(fn[j:], "(*") {
				fn = fn[:j]
			} else if j := strings.LastIndex(fn, "("); j > 0 {
				fn = fn[:j]
			}
			return fn
		}
	}
	return "?"
}

// GuardTimeout runs fn on its own goroutine; hung=true when it did not return within d (the goroutine is abandoned).
// A mutex self-deadlock inside a synchronous table call is deterministic, so the caller replays the case to confirm.
func GuardTimeout(d time.Duration, fn func()) (panicked string, hung bool, stack string) {
	return guardTimeout(d, fn, true)
}

func guardTimeout(d time.Duration, fn func(), dump bool) (panicked string, hung bool, stack string) {
	done := make(chan string, 1)
	go func() { done <- Guard(fn) }()
	select {
	case p := <-done:
		return p, false, ""
	case <-time.After(d):
		if !dump {
			return "", true, ""
		}
		buf := make([]byte, 1<<20)
		buf = buf[:runtime.Stack(buf, true)]
		return "", true, blockedIn(string(buf))
	}
}

// blockedIn picks, from a full goroutine dump, the bio-rd frames of goroutines blocked on a mutex.
func blockedIn(dump string) string {
	var out []string
	for _, g := range strings.Split(dump, "\n\n") {
		if !strings.Contains(g, "sync.Mutex.Lock") && !strings.Contains(g, "sync.(*Mutex)") && !strings.Contains(g, "sync.(*RWMutex)") {
			continue
		}
		if !strings.Contains(g, "bio-rd/") {
			continue
		}
		lines := strings.Split(g, "\n")
		var keep []string
		for _, l := range lines {
			if strings.Contains(l, "bio-rd/") && !strings.HasPrefix(l, "\t") {
				keep = append(keep, strings.TrimSpace(l))
			}
		}
		if len(keep) > 6 {
			keep = keep[:6]
		}
		out = append(out, strings.Join(keep, " <- "))
		if len(out) >= 2 {
			break
		}
	}
	return strings.Join(out, "\n")
}

// HangGuard runs synchronous table calls under a two-stage watchdog. The calls take microseconds; a first, short
// timeout keeps a workload with many deadlocking cases fast, and a short timeout is only believed for a key (the
// violation signature the caller would report) that already hung under the long timeout once (a mutex
// self-deadlock is deterministic); otherwise the case is run again under the long timeout. In replay mode only
// the long timeout is used.
type HangGuard struct {
	Short, Long time.Duration
	mu          sync.Mutex
	confirmed   map[string]string
}

func NewHangGuard(replay bool) *HangGuard {
	h := &HangGuard{Short: 15 * time.Millisecond, Long: 3 * time.Second, confirmed: map[string]string{}}
	if replay {
		h.Short, h.Long = 0, 4*time.Second
	}
	return h
}

// RunGuarded executes fn (which must build everything it touches itself: it may run twice, and an abandoned run may
// still be executing) and returns the value of the run that completed.
func RunGuarded[T any](h *HangGuard, key string, fn func() T) (val T, panicked string, hung bool, stack string) {
	type res struct {
		v T
		p string
	}
	try := func(d time.Duration, dump bool) (res, bool, string) {
		done := make(chan res, 1)
		go func() {
			var r res
			r.p = Guard(func() { r.v = fn() })
			done <- r
		}()
		select {
		case r := <-done:
			return r, false, ""
		case <-time.After(d):
			if !dump {
				return res{}, true, ""
			}
			buf := make([]byte, 1<<20)
			buf = buf[:runtime.Stack(buf, true)]
			return res{}, true, blockedIn(string(buf))
		}
	}
	if h.Short > 0 {
		r, hg, _ := try(h.Short, false)
		if !hg {
			return r.v, r.p, false, ""
		}
		h.mu.Lock()
		st, ok := h.confirmed[key]
		h.mu.Unlock()
		if ok {
			return val, "", true, st
		}
	}
	r, hg, st := try(h.Long, true)
	if hg {
		h.mu.Lock()
		if old, ok := h.confirmed[key]; ok {
			st = old
		} else {
			h.confirmed[key] = st
		}
		h.mu.Unlock()
		return val, "", true, st
	}
	return r.v, r.p, false, ""
}

// WaitGuarded runs fn exactly once (table operations are not idempotent) on its own goroutine. It waits Short; a
// key that already hung under the long wait is then reported hung at once, otherwise the wait continues up to Long.
func WaitGuarded(h *HangGuard, key string, fn func()) (panicked string, hung bool, stack string) {
	done := make(chan string, 1)
	go func() { done <- Guard(fn) }()
	if h.Short > 0 {
		select {
		case p := <-done:
			return p, false, ""
		case <-time.After(h.Short):
		}
		h.mu.Lock()
		st, ok := h.confirmed[key]
		h.mu.Unlock()
		if ok {
			return "", true, st
		}
	}
	select {
	case p := <-done:
		return p, false, ""
	case <-time.After(h.Long):
	}
	buf := make([]byte, 1<<20)
	buf = buf[:runtime.Stack(buf, true)]
	st := blockedIn(string(buf))
	h.mu.Lock()
	if old, ok := h.confirmed[key]; ok {
		st = old
	} else {
		h.confirmed[key] = st
	}
	h.mu.Unlock()
	return "", true, st
}
