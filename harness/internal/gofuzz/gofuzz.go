// Package gofuzz runs one native Go fuzz target of verifharness/fuzz as a child `go test -fuzz`
// with a fixed execution count, parses the engine's statistics and hands a saved crasher back to
// the caller as plain values. It decides nothing: the calling check converts the crasher into its
// own case type and judges it with its own oracle. Thorough tiers only.
package gofuzz

import (
	"bytes"
	"fmt"
	"os"
	"os/exec"
	"path/filepath"
	"regexp"
	"strconv"
	"strings"
	"syscall"
	"time"

	"verifharness/internal/vf"
)

// Opts describe one fuzzing run.
type Opts struct {
	Name     string        // fuzz target, e.g. FuzzBGPDecode
	Execs    int           // -fuzztime=<Execs>x: an execution count, never a time budget
	Workers  int           // -parallel (default 8)
	Watchdog time.Duration // wall-clock limit of the child (build included); firing => Inconclusive
}

// Result is what the run produced. All numbers are read from the engine's own output.
type Result struct {
	Execs          int64   // executions reported by the last progress line
	SeedCorpus     int64   // entries the baseline coverage pass ran (f.Add seeds)
	NewInteresting int64   // inputs that reached new coverage
	CorpusSize     int64   // seeds + new interesting ("total" of the last progress line)
	CacheFiles     int     // files the engine wrote to its cache directory (removed afterwards)
	Found          bool    // the engine reported a failing input
	Crasher        []any   // arguments of the failing input (byte / []byte values), nil if none was saved
	CrasherFile    string  // name of the file the engine wrote (already deleted)
	FailureText    string  // the engine's failure report (trimmed)
	Inconclusive   string  // non-empty: the run could not be carried out or read
	WallS          float64 // wall time of the child, build included
}

var (
	progressRe = regexp.MustCompile(`fuzz: elapsed: \S+, execs: (\d+) \(\d+/sec\), new interesting: (\d+) \(total: (\d+)\)`)
	baselineRe = regexp.MustCompile(`gathering baseline coverage: (\d+)/(\d+) completed`)
	writtenRe  = regexp.MustCompile(`Failing input written to (\S+)`)
)

// HarnessDir is the module directory the child is started in.
func HarnessDir() string { return filepath.Join(vf.Root, "harness") }

// modFlag mirrors ./check: with VERIF_REPO set the harness is built against another checkout through
// the alternative go.mod that ./check wrote to <root>/bin.
func modFlag() (string, error) {
	repo := os.Getenv("VERIF_REPO")
	if repo == "" {
		return "", nil
	}
	mf := filepath.Join(vf.Root, "bin", "go."+strings.ReplaceAll(repo, "/", "_")+".mod")
	if _, err := os.Stat(mf); err != nil {
		return "", fmt.Errorf("VERIF_REPO is set but %s does not exist", mf)
	}
	return "-modfile=" + mf, nil
}

// Run executes the fuzz target. It never leaves files behind: the engine's cache lives in a fresh
// directory under $TMPDIR and a saved crasher is read and deleted.
func Run(o Opts) (res Result) {
	t0 := time.Now()
	defer func() { res.WallS = float64(int(time.Since(t0).Seconds()*10)) / 10 }()
	if o.Workers <= 0 {
		o.Workers = 8
	}
	if o.Watchdog <= 0 {
		o.Watchdog = 20 * time.Minute
	}
	hd := HarnessDir()
	if _, err := os.Stat(filepath.Join(hd, "fuzz")); err != nil {
		res.Inconclusive = "fuzz package not found: " + err.Error()
		return
	}
	mod, err := modFlag()
	if err != nil {
		res.Inconclusive = err.Error()
		return
	}
	cache, err := os.MkdirTemp("", "verif-gofuzz-")
	if err != nil {
		res.Inconclusive = err.Error()
		return
	}
	defer os.RemoveAll(cache)
	// a crasher left by an aborted earlier run would be replayed as a seed and fail the baseline pass
	crashDir := filepath.Join(hd, "fuzz", "testdata", "fuzz", o.Name)
	cleanCrashDir(crashDir)
	defer cleanCrashDir(crashDir)

	args := []string{"test"}
	if mod != "" {
		args = append(args, mod)
	}
	args = append(args, "-tags", "verif", "-vet=off", "-run", "^$", "-fuzz", "^"+o.Name+"$",
		fmt.Sprintf("-fuzztime=%dx", o.Execs), "-fuzzminimizetime=20000x", "-parallel", strconv.Itoa(o.Workers),
		"./fuzz/", "-test.fuzzcachedir="+cache) // flags the go command does not know go after the package
	cmd := exec.Command("go", args...)
	cmd.Dir = hd
	cmd.Env = append(os.Environ(), "GOFLAGS=-mod=mod", "GOPROXY=off", "GOSUMDB=off", "GOTOOLCHAIN=local")
	cmd.SysProcAttr = &syscall.SysProcAttr{Setpgid: true, Pdeathsig: syscall.SIGKILL}
	var out bytes.Buffer
	cmd.Stdout, cmd.Stderr = &out, &out
	if err := cmd.Start(); err != nil {
		res.Inconclusive = "go test did not start: " + err.Error()
		return
	}
	done := make(chan error, 1)
	go func() { done <- cmd.Wait() }()
	var werr error
	select {
	case werr = <-done:
	case <-time.After(o.Watchdog):
		syscall.Kill(-cmd.Process.Pid, syscall.SIGKILL) // go test, the test binary and its workers
		<-done
		res.parse(out.String())
		res.Inconclusive = fmt.Sprintf("fuzzing watchdog (%s) fired after %d executions", o.Watchdog, res.Execs)
		return
	}
	text := out.String()
	res.parse(text)
	if ents, err := os.ReadDir(filepath.Join(cache, o.Name)); err == nil {
		res.CacheFiles = len(ents)
	}
	if werr == nil {
		if res.Execs == 0 {
			res.Inconclusive = "go test -fuzz finished without a progress line: " + tailStr(text, 400)
		}
		return
	}
	// non-zero exit: a failing input, or the package did not build
	if !strings.Contains(text, "--- FAIL") && !strings.Contains(text, "Failing input written") {
		res.Inconclusive = fmt.Sprintf("go test -fuzz failed (%v): %s", werr, tailStr(text, 800))
		return
	}
	res.Found = true
	if i := strings.Index(text, "--- FAIL"); i >= 0 {
		res.FailureText = headStr(text[i:], 2500)
	}
	file := ""
	if m := writtenRe.FindStringSubmatch(text); m != nil {
		file = filepath.Join(hd, "fuzz", m[1])
	} else if ents, _ := os.ReadDir(crashDir); len(ents) > 0 {
		file = filepath.Join(crashDir, ents[0].Name())
	}
	if file == "" {
		res.Inconclusive = "the fuzzing engine reported a failure but saved no input: " + tailStr(text, 800)
		return
	}
	raw, err := os.ReadFile(file)
	if err != nil {
		res.Inconclusive = "crasher file: " + err.Error()
		return
	}
	res.CrasherFile = filepath.Base(file)
	vals, err := ParseCorpusFile(raw)
	if err != nil {
		res.Inconclusive = fmt.Sprintf("crasher file %s: %v: %q", res.CrasherFile, err, headStr(string(raw), 300))
		return
	}
	res.Crasher = vals
	return
}

func (r *Result) parse(text string) {
	if ms := baselineRe.FindAllStringSubmatch(text, -1); len(ms) > 0 {
		r.SeedCorpus, _ = strconv.ParseInt(ms[len(ms)-1][2], 10, 64)
	}
	if ms := progressRe.FindAllStringSubmatch(text, -1); len(ms) > 0 {
		m := ms[len(ms)-1]
		r.Execs, _ = strconv.ParseInt(m[1], 10, 64)
		r.NewInteresting, _ = strconv.ParseInt(m[2], 10, 64)
		r.CorpusSize, _ = strconv.ParseInt(m[3], 10, 64)
	}
}

// cleanCrashDir deletes saved crashers of the target and the then empty testdata directories.
func cleanCrashDir(dir string) {
	ents, err := os.ReadDir(dir)
	if err != nil {
		return
	}
	for _, e := range ents {
		if !e.IsDir() {
			os.Remove(filepath.Join(dir, e.Name()))
		}
	}
	os.Remove(dir)                             // testdata/fuzz/<Name>
	os.Remove(filepath.Dir(dir))               // testdata/fuzz   (fails, as intended, when not empty)
	os.Remove(filepath.Dir(filepath.Dir(dir))) // testdata
}

// ParseCorpusFile reads the "go test fuzz v1" encoding for the argument types the targets of
// verifharness/fuzz use (byte and []byte; string is accepted as []byte).
func ParseCorpusFile(raw []byte) ([]any, error) {
	lines := strings.Split(strings.TrimRight(string(raw), "\n"), "\n")
	if len(lines) < 2 || strings.TrimSpace(lines[0]) != "go test fuzz v1" {
		return nil, fmt.Errorf("not a go test fuzz v1 file")
	}
	var out []any
	for _, l := range lines[1:] {
		l = strings.TrimSpace(l)
		if l == "" {
			continue
		}
		open := strings.IndexByte(l, '(')
		if open < 0 || !strings.HasSuffix(l, ")") {
			return nil, fmt.Errorf("malformed line %q", headStr(l, 60))
		}
		typ, arg := l[:open], l[open+1:len(l)-1]
		switch typ {
		case "[]byte", "string":
			s, err := strconv.Unquote(arg)
			if err != nil {
				return nil, fmt.Errorf("%s literal: %v", typ, err)
			}
			out = append(out, []byte(s))
		case "byte", "uint8":
			if n, err := strconv.ParseUint(arg, 0, 8); err == nil {
				out = append(out, byte(n))
				break
			}
			s, err := strconv.Unquote(arg) // character literal, e.g. '\x03' or 'ÿ'
			if err != nil {
				return nil, fmt.Errorf("byte literal: %v", err)
			}
			rs := []rune(s)
			if len(rs) != 1 || rs[0] > 255 {
				return nil, fmt.Errorf("byte literal %q out of range", arg)
			}
			out = append(out, byte(rs[0]))
		default:
			return nil, fmt.Errorf("unsupported type %q", typ)
		}
	}
	return out, nil
}

// Record puts the run's statistics into the evidence of r under the given key prefix ("fuzz").
func Record(r *vf.Run, res Result, target string, budget int) {
	r.Set("fuzz_target", target)
	r.Set("fuzz_budget_executions", budget)
	r.Count("fuzz_executions", int(res.Execs))
	r.Count("fuzz_new_interesting", int(res.NewInteresting))
	r.Set("fuzz_seed_corpus", res.SeedCorpus)
	r.Set("fuzz_corpus_size", res.CorpusSize)
	r.Set("fuzz_found_failing_input", res.Found)
	r.Set("fuzz_wall_s", res.WallS)
	r.Eval(int(res.Execs))
	if res.Inconclusive != "" {
		r.Inconclusive("native fuzzing (" + target + "): " + res.Inconclusive)
	}
}

func tailStr(s string, n int) string {
	if len(s) > n {
		return s[len(s)-n:]
	}
	return s
}

func headStr(s string, n int) string {
	if len(s) > n {
		return s[:n]
	}
	return s
}
