// Package bmprig runs a real bio-rd BMP router session (hook-built Router + real serve loop) on
// a bmpconn connection and turns panics of the serve goroutine into values. In production the
// serve loop runs in a goroutine without recover (BMPReceiver.handleConnection), so a panic
// recovered here is a crash of the whole receiver process there.
package bmprig

import (
	"fmt"
	"net"
	"regexp"
	"runtime/debug"
	"strings"
	"time"

	"github.com/bio-routing/bio-rd/protocols/bgp/server"
	"github.com/bio-routing/bio-rd/util/log"

	"verifharness/internal/bmpconn"
)

type nullLogger struct{}

func (nullLogger) Errorf(string, ...interface{})               {}
func (nullLogger) Infof(string, ...interface{})                {}
func (nullLogger) Debugf(string, ...interface{})               {}
func (nullLogger) Error(string)                                {}
func (nullLogger) Info(string)                                 {}
func (nullLogger) Debug(string)                                {}
func (n nullLogger) WithFields(log.Fields) log.LoggerInterface { return n }
func (n nullLogger) WithError(error) log.LoggerInterface       { return n }

// Quiet replaces bio-rd's logger by a discarding one.
func Quiet() { log.SetLogger(nullLogger{}) }

// Outcome is how a serve loop ended.
type Outcome struct {
	Err      error  // what serve returned (nil when it panicked)
	Panicked bool   // the serve goroutine panicked
	Panic    string // panic value
	Stack    string // stack of the panicking goroutine
}

// Session is one router serving one connection.
type Session struct {
	Router *server.Router
	Conn   *bmpconn.Conn
	done   chan Outcome
	out    *Outcome
}

// NewRouter builds a router through the hook.
func NewRouter(ip net.IP, cfg server.RouterConfig) *server.Router {
	cfg.Passive = true
	return server.VerifNewBMPRouter(ip, 0, cfg)
}

// Serve starts the real serve loop of r on a fresh connection in its own goroutine.
func Serve(r *server.Router) *Session {
	s := &Session{Router: r, Conn: bmpconn.New(), done: make(chan Outcome, 1)}
	go func() {
		defer func() {
			if p := recover(); p != nil {
				s.done <- Outcome{Panicked: true, Panic: fmt.Sprint(p), Stack: string(debug.Stack())}
			}
		}()
		err := r.VerifServe(s.Conn)
		s.done <- Outcome{Err: err}
	}()
	return s
}

// Returned reports the outcome if the serve loop has ended, waiting up to watchdog for it.
func (s *Session) Returned(watchdog time.Duration) (*Outcome, bool) {
	if s.out != nil {
		return s.out, true
	}
	if watchdog <= 0 {
		select {
		case o := <-s.done:
			s.out = &o
			return s.out, true
		default:
			return nil, false
		}
	}
	t := time.NewTimer(watchdog)
	defer t.Stop()
	select {
	case o := <-s.done:
		s.out = &o
		return s.out, true
	case <-t.C:
		return nil, false
	}
}

var frameRe = regexp.MustCompile(`(?m)^github\.com/bio-routing/bio-rd/([^\s(]+(?:\([^)]*\))?[^\s(]*)\(`)

// TopFrame extracts the innermost bio-rd function of a Go stack dump (of the first goroutine in
// it), e.g. "protocols/bgp/server.recvBMPMsg"; "" if there is none.
func TopFrame(stack string) string {
	f, _ := TopFrames(stack)
	return f
}

// TopFrames returns the innermost bio-rd function and its nearest distinct bio-rd caller.
func TopFrames(stack string) (where, via string) {
	// only the first goroutine block
	if i := strings.Index(stack, "\n\ngoroutine "); i >= 0 {
		stack = stack[:i]
	}
	for _, m := range frameRe.FindAllStringSubmatch(stack, -1) {
		f := m[1]
		if strings.Contains(f, "verif") || strings.Contains(f, "Verif") {
			continue
		}
		if where == "" {
			where = f
			continue
		}
		if f != where {
			return where, f
		}
	}
	return where, ""
}

// PanicClass reduces a panic/fatal message to a stable class.
func PanicClass(msg string) string {
	if strings.Contains(msg, "cannot allocate memory") {
		return "out of memory"
	}
	for _, c := range []string{"slice bounds out of range", "index out of range", "nil pointer dereference",
		"makeslice: len out of range", "makeslice: cap out of range", "interface conversion", "out of memory",
		"close of closed channel", "close of nil channel", "all goroutines are asleep", "stack overflow",
		"concurrent map", "negative", "integer divide by zero"} {
		if strings.Contains(msg, c) {
			return c
		}
	}
	if len(msg) > 60 {
		msg = msg[:60]
	}
	return msg
}
