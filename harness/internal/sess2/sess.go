package sess2

import (
	"errors"
	"fmt"
	"strings"
	"time"

	"github.com/bio-routing/bio-rd/protocols/bgp/server"

	"verifharness/internal/memconn"
	"verifharness/internal/sessgen"
	"verifharness/internal/speaker"
	"verifharness/internal/wire"
)

// Cut points of a conversation.
const (
	CutOpenSent    = "opensent"
	CutOpenConfirm = "openconfirm"
	CutEstablished = "established"
)

// Cuts lists the cut points.
var Cuts = []string{CutOpenSent, CutOpenConfirm, CutEstablished}

// ErrStalled: bio-rd's one second OpenSent timer (or a negotiated hold timer) fired while the harness
// was still driving the exchange — the machine was too slow; the attempt decides nothing.
var ErrStalled = errors.New("sess2: bio-rd's hold timer fired during the exchange (machine too slow)")

// HoldTimerFired reports whether bio-rd wrote a NOTIFICATION with code 4 on the connection.
func HoldTimerFired(s *speaker.Session) bool {
	for _, n := range s.Notifications() {
		if n.Code == 4 {
			return true
		}
	}
	return false
}

// CutAt opens a new incoming connection to p and drives the valid conversation up to cut: the FSM
// of the connection is in OpenSent (bio-rd's OPEN seen, ours not sent), OpenConfirm (both OPENs
// exchanged, bio-rd's KEEPALIVE seen, ours not sent) or Established. ErrStalled asks for a retry.
func CutAt(p *speaker.Peer, open *wire.Open, cut string) (*speaker.Session, error) {
	s, err := p.Connect()
	if err != nil {
		return s, err
	}
	return s, Advance(s, open, cut)
}

// Advance drives a connection that bio-rd holds in OpenSent (freshly connected or delivered) up to cut.
func Advance(s *speaker.Session, open *wire.Open, cut string) error {
	stalled := func(err error) error {
		if HoldTimerFired(s) {
			return ErrStalled
		}
		return err
	}
	if _, err := s.WaitSUTOpen(); err != nil {
		return stalled(err)
	}
	if cut == CutOpenSent {
		if st := s.State(); st != "openSent" {
			return stalled(fmt.Errorf("sess2: state %q instead of openSent", st))
		}
		return nil
	}
	if !s.SendOpen(open) {
		return stalled(errors.New("sess2: connection closed before our OPEN"))
	}
	if _, ok := s.WaitMessage(speaker.StepTimeout, func(m wire.Message) bool { return m.Type == wire.TypeKeepalive }); !ok {
		return stalled(fmt.Errorf("sess2: no KEEPALIVE after our OPEN (state %s, closed=%v, notifications=%v)", s.State(), s.Conn.IsClosed(), s.Notifications()))
	}
	if r := s.Sync(); !r.OK() {
		return stalled(fmt.Errorf("sess2: no synchronisation after OPEN (%v)", r))
	}
	if cut == CutOpenConfirm {
		if st := s.State(); st != "openConfirm" || s.Conn.IsClosed() {
			return stalled(fmt.Errorf("sess2: state %q (closed=%v) instead of openConfirm", st, s.Conn.IsClosed()))
		}
		return nil
	}
	if !s.SendKeepalive() {
		return stalled(errors.New("sess2: connection closed before our KEEPALIVE"))
	}
	if r := s.Sync(); !r.OK() {
		return stalled(fmt.Errorf("sess2: no synchronisation after KEEPALIVE (%v)", r))
	}
	if !s.Established() {
		return stalled(fmt.Errorf("sess2: not established (state %s, closed=%v)", s.State(), s.Conn.IsClosed()))
	}
	return nil
}

// CutAtRetry is CutAt repeated while the attempt stalled.
func CutAtRetry(p *speaker.Peer, open func() *wire.Open, cut string) (*speaker.Session, error) {
	var s *speaker.Session
	var err error
	for attempt := 0; attempt < 4; attempt++ {
		s, err = CutAt(p, open(), cut)
		if err == nil || !errors.Is(err, ErrStalled) {
			return s, err
		}
	}
	return s, err
}

// Teardown ends a session politely (NOTIFICATION Cease from the remote side) so that no timers and
// update senders stay behind in a process that runs many cases.
func Teardown(s *speaker.Session) {
	if s == nil || s.Conn == nil || s.Conn.IsClosed() {
		return
	}
	switch s.State() {
	case "established", "openConfirm", "openSent":
		if s.SendNotification(6, 0) {
			s.Conn.WaitClosed(2 * time.Second)
		}
	}
}

// ---------------------------------------------------------------------------------------------
// canary

// CanaryCfg is the session configuration of the canary: iBGP, IPv4 unicast, 4-octet AS.
var CanaryCfg = sessgen.Cfg{V4: true, PeerAS4: true}

type canaryRoute struct {
	pfx wire.NLRI
	id  uint32
}

// Canary is a well-behaved session next to the one under attack.
type Canary struct {
	Srv    *speaker.Server
	Peer   *speaker.Peer
	S      *speaker.Session
	routes []canaryRoute
	next   uint32
}

// NewCanary adds the canary peer to srv, establishes it and announces two routes.
func NewCanary(srv *speaker.Server) (*Canary, error) {
	p, err := srv.AddPeer(CanaryCfg.PeerConfig())
	if err != nil {
		return nil, err
	}
	c := &Canary{Srv: srv, Peer: p, next: 1}
	open := func() *wire.Open { o := CanaryCfg.Open(); o.ID = 0x0a0a0a0a; return o }
	c.S, err = CutAtRetry(p, open, CutEstablished)
	if err != nil {
		return c, fmt.Errorf("canary: %w", err)
	}
	for i := 0; i < 2; i++ {
		if err := c.announce(); err != nil {
			return c, err
		}
	}
	if miss := c.missing(); len(miss) > 0 {
		return c, fmt.Errorf("canary: routes %v not in the Loc-RIB before the attack", miss)
	}
	return c, nil
}

func (c *Canary) announce() error {
	id := c.next
	c.next++
	n := wire.V4(198, 51, 100, byte(id), 32)
	lp := uint32(500)
	pa := &wire.PathAttrs{Origin: wire.U8(0), HasASPath: true, NextHop: sessgen.NHv4(0x4000 | id), LocalPref: &lp,
		Communities: []uint32{0xfdea0000 | id}}
	u := &wire.Update{Attrs: pa.Build(c.S.Neg.SendOpts()), NLRI: []wire.NLRI{n}}
	if err := c.S.SendUpdate(u); err != nil {
		return fmt.Errorf("canary: %w", err)
	}
	if r := c.S.Sync(); !r.OK() {
		return fmt.Errorf("canary: no synchronisation after UPDATE (%v)", r)
	}
	c.routes = append(c.routes, canaryRoute{n, id})
	return nil
}

// missing lists the canary routes that are not (any more) in the Loc-RIB as paths learned from the canary.
func (c *Canary) missing() []string {
	have := map[string]bool{}
	for _, v := range speaker.FromSource(speaker.Views(c.Srv.Dump(true)), c.Peer.Addr) {
		have[v.PfxS+"|"+nhOf(v.Attrs)] = true
	}
	var out []string
	for _, r := range c.routes {
		nh := sessgen.NHv4(0x4000 | r.id)
		k := fmt.Sprintf("%s|%d.%d.%d.%d", r.pfx.Key(), nh[0], nh[1], nh[2], nh[3])
		if !have[k] {
			out = append(out, k)
		}
	}
	return out
}

func nhOf(attrs string) string {
	i := strings.Index(attrs, " nh=")
	if i < 0 {
		return ""
	}
	rest := attrs[i+4:]
	if j := strings.IndexByte(rest, ' '); j >= 0 {
		rest = rest[:j]
	}
	return rest
}

// OverlongInLocRIB reports whether the IPv4 Loc-RIB holds a route whose prefix is not an IPv4 prefix
// of at most 32 bits (a symptom: the table was handed a prefix no IPv4 NLRI can carry).
func (c *Canary) OverlongInLocRIB() bool {
	for _, v := range speaker.Views(c.Srv.Dump(true)) {
		if !v.Pfx.V4 || v.Pfx.Len > 32 {
			return true
		}
	}
	return false
}

// Check is the collateral-damage oracle: the canary is still Established, a KEEPALIVE is taken, a new
// UPDATE is accepted into the Loc-RIB and the earlier routes are still there. It returns the clause
// that failed ("" when healthy) and a description.
func (c *Canary) Check() (clause, detail string) {
	if !c.S.Established() {
		return "canary-lost", fmt.Sprintf("the canary session is no longer established (state %s, connection closed by bio-rd: %v, NOTIFICATIONs %v)", c.S.State(), c.S.Conn.IsClosed(), c.S.Notifications())
	}
	if !c.S.SendKeepalive() {
		return "canary-lost", "the canary's connection was closed by bio-rd"
	}
	if r := c.S.Sync(); !r.OK() || !c.S.Established() {
		return "canary-wedged", fmt.Sprintf("a KEEPALIVE on the canary session is not taken (%v, state %s)", r, c.S.State())
	}
	if miss := c.missing(); len(miss) > 0 {
		return "canary-routes", fmt.Sprintf("routes of the canary session vanished from the Loc-RIB: %v; the Loc-RIB holds %v", miss, speaker.Views(c.Srv.Dump(true)))
	}
	if err := c.announce(); err != nil {
		return "canary-wedged", err.Error()
	}
	if miss := c.missing(); len(miss) > 0 {
		return "canary-routes", fmt.Sprintf("the canary's new UPDATE was not accepted into the Loc-RIB / earlier routes vanished: %v", miss)
	}
	return "", ""
}

// ---------------------------------------------------------------------------------------------
// observation helpers

// ConnOfFSM maps FSM snapshots to harness sessions by the remote address of the FSM's connection.
func ConnOfFSM(f server.VerifFSMInfo, sessions ...*speaker.Session) *speaker.Session {
	if !f.HasConn {
		return nil
	}
	for _, s := range sessions {
		if s != nil && s.Conn != nil && s.Conn.RemoteString() == f.RemoteAddr {
			return s
		}
	}
	return nil
}

// NotificationWith reports whether bio-rd wrote a NOTIFICATION with that code on the connection.
func NotificationWith(s *speaker.Session, code uint8) bool {
	for _, n := range s.Notifications() {
		if n.Code == code {
			return true
		}
	}
	return false
}

// NotifText renders the NOTIFICATIONs bio-rd wrote on a connection.
func NotifText(s *speaker.Session) string {
	var out []string
	for _, n := range s.Notifications() {
		out = append(out, fmt.Sprintf("%d/%d", n.Code, n.Subcode))
	}
	if len(out) == 0 {
		return "none"
	}
	return strings.Join(out, ",")
}

// Sync is speaker.Session.Sync for situations in which the FSM may END while the harness waits (it was
// told to cease, by the hook or by the collision handling of another FSM of the peer). The speaker's
// Sync offers the barrier once with a long timeout as soon as the reader is idle; an FSM that ends a
// moment later never takes it and the call waits out the whole watchdog. Here the barrier is offered
// in short slices, looking at the connection in between: Barrier == false together with Closed means
// the FSM is gone.
func Sync(s *speaker.Session) speaker.SyncResult {
	var r speaker.SyncResult
	switch s.Conn.WaitReaderIdle(speaker.StepTimeout) {
	case memconn.ReaderIdle:
		r.Idle = true
	case memconn.SUTClosed:
		r.Closed = true
	default:
		return r
	}
	deadline := time.Now().Add(speaker.StepTimeout)
	for {
		if s.Conn.IsClosed() {
			r.Closed = true
			r.Barrier = s.Barrier(speaker.CeaseGrace)
			return r
		}
		if s.Barrier(100 * time.Millisecond) {
			r.Barrier = true
			r.Closed = s.Conn.IsClosed()
			return r
		}
		if time.Now().After(deadline) {
			return r
		}
	}
}
