// Package sess2 holds what the checks C21 (hostile byte streams), C23 (FSM refinement) and C24
// (connection collisions) share on top of internal/speaker, which it only uses and never changes:
//
//   - CutAt brings a fresh connection of a peer to OpenSent, OpenConfirm or Established;
//   - Canary is a second, well-behaved session on the same server whose health (KEEPALIVE taken,
//     UPDATE accepted into the Loc-RIB, earlier routes kept) shows collateral damage;
//   - Model is the abstract RFC 4271 §8.2.2 session state machine of C23: for every (state, event
//     class) the SET of permitted successor states, permissive wherever the RFC is;
//   - small observation helpers (FSM lists per connection, NOTIFICATION search, route ids).
//
// Nothing here judges anything except Model.Allowed, which is pure.
package sess2
