package sess2

// Abstract session state machine of C23: RFC 4271 §8.2.2 reduced to the state component, with the
// SET of successors the RFC permits for every (state, event class). Where the RFC leaves a choice, or
// an event is optional for an implementation (AutomaticStart / AutomaticStop, the moment a TCP failure
// is noticed), every permitted outcome is in the set. Timer expiries are not in the sets: the monitor
// accepts an unexpected step to Idle only with evidence that the hold timer fired (NOTIFICATION 4).

// States (bio-rd's published names; Ceased: the FSM goroutine ended through the Cease event, which is
// how bio-rd removes a session object — the RFC has no such state, it corresponds to the FSM being destroyed).
const (
	StIdle        = "idle"
	StConnect     = "connect"
	StActive      = "active"
	StOpenSent    = "openSent"
	StOpenConfirm = "openConfirm"
	StEstablished = "established"
	StCeased      = "ceased"
)

// Event classes.
const (
	EvManualStart    = "ManualStart"
	EvManualStop     = "ManualStop"
	EvAutomaticStart = "AutomaticStart"
	EvAutomaticStop  = "AutomaticStop"
	EvCease          = "Cease"
	EvConnDelivered  = "ConnDelivered" // TCP connection established (Tcp_CR_Acked / TcpConnectionConfirmed)
	EvConnClosed     = "ConnClosed"    // the remote side closes the connection (TcpConnectionFails, once noticed)
	EvOpenValid      = "OpenValid"
	EvOpenInvalid    = "OpenInvalid"
	EvKeepalive      = "Keepalive"
	EvUpdate         = "Update" // a valid UPDATE
	EvNotification   = "Notification"
	EvGarbage        = "Garbage"      // bytes that are not a BGP message (header error)
	EvWriteFailure   = "WriteFailure" // from now on bio-rd's writes on the connection fail
	// timer events: the harness waits in real time
	EvWaitShort = "Wait1.3s"    // longer than bio-rd's OpenSent hold time (1 s) and than the keepalive time of a 3 s session
	EvWaitHold  = "WaitHold+1s" // longer than the negotiated hold time (3 s sessions only)
)

// Events lists the 14 non-timer event classes.
var Events = []string{EvManualStart, EvManualStop, EvAutomaticStart, EvAutomaticStop, EvCease, EvConnDelivered, EvConnClosed,
	EvOpenValid, EvOpenInvalid, EvKeepalive, EvUpdate, EvNotification, EvGarbage, EvWriteFailure}

// Ctx is what the successor set depends on besides the state.
type Ctx struct {
	Applicable bool // the event could be delivered (a message needs an open connection, a connection needs an FSM waiting for one)
	WriteFault bool // bio-rd's writes on the current connection fail
}

func set(xs ...string) map[string]bool {
	m := map[string]bool{}
	for _, x := range xs {
		m[x] = true
	}
	return m
}

// Allowed returns the permitted successor states.
func Allowed(state, ev string, c Ctx) map[string]bool {
	if state == StCeased {
		return set(StCeased)
	}
	if !c.Applicable {
		return set(state)
	}
	if ev == EvCease {
		return set(StCeased)
	}
	stay := set(state)
	switch state {
	case StIdle:
		switch ev {
		case EvManualStart, EvAutomaticStart:
			return set(StConnect, StActive) // Events 1,3 → Connect; passive variants (4,5) → Active
		}
		return stay // "all other events are ignored in the Idle state"
	case StConnect, StActive:
		switch ev {
		case EvManualStart, EvAutomaticStart:
			return stay // start events are ignored
		case EvManualStop:
			return set(StIdle)
		case EvAutomaticStop:
			return set(StIdle, state) // optional event: may be ignored
		case EvConnDelivered:
			return set(StOpenSent) // OPEN sent; (a failing write is not possible on a fresh connection)
		case EvWaitShort, EvWaitHold:
			return stay // ConnectRetryTimer is a minute
		}
		return stay
	case StOpenSent:
		switch ev {
		case EvManualStart, EvAutomaticStart, EvWriteFailure:
			return stay
		case EvManualStop:
			return set(StIdle)
		case EvAutomaticStop:
			return set(StIdle, state)
		case EvOpenValid:
			if c.WriteFault {
				return set(StOpenConfirm, StActive, StIdle) // KEEPALIVE cannot be sent: TcpConnectionFails → Active (Idle tolerated)
			}
			return set(StOpenConfirm)
		case EvOpenInvalid, EvKeepalive, EvUpdate, EvNotification, EvGarbage:
			if c.WriteFault {
				// the answer cannot be written: the write failure (TcpConnectionFails → Active) and the
				// message error (→ Idle) are both pending, the RFC does not order them
				return set(StIdle, StActive)
			}
			return set(StIdle)
		case EvConnClosed:
			return set(StActive, StIdle, state) // Event 18 → Active; Idle tolerated; not noticed yet → unchanged
		case EvWaitShort, EvWaitHold:
			// HoldTimer_Expires → Idle; the RFC only asks for "a large value" (4 minutes suggested) in
			// OpenSent, so a machine that has not timed out yet is a behaviour of the model as well
			return set(StIdle, state)
		}
	case StOpenConfirm:
		switch ev {
		case EvManualStart, EvAutomaticStart, EvWriteFailure:
			return stay
		case EvManualStop:
			return set(StIdle)
		case EvAutomaticStop:
			return set(StIdle, state)
		case EvKeepalive:
			return set(StEstablished)
		case EvOpenValid:
			return set(StIdle, state) // collision detection or nothing / FSM error
		case EvOpenInvalid, EvUpdate, EvNotification, EvGarbage:
			return set(StIdle)
		case EvConnClosed:
			return set(StIdle, state)
		case EvWaitShort:
			if c.WriteFault {
				return set(StIdle, state) // KeepaliveTimer_Expires, KEEPALIVE cannot be sent
			}
			return stay
		case EvWaitHold:
			return set(StIdle)
		}
	case StEstablished:
		switch ev {
		case EvManualStart, EvAutomaticStart, EvWriteFailure, EvKeepalive, EvUpdate:
			return stay
		case EvManualStop:
			return set(StIdle)
		case EvAutomaticStop:
			return set(StIdle, state)
		case EvOpenValid:
			return set(StIdle, state)
		case EvOpenInvalid, EvNotification, EvGarbage:
			return set(StIdle)
		case EvConnClosed:
			return set(StIdle, state)
		case EvWaitShort:
			if c.WriteFault {
				return set(StIdle, state)
			}
			return stay
		case EvWaitHold:
			return set(StIdle)
		}
	}
	return stay
}

// ModelStep is one step of the abstract machine used for the exhaustive model-side walk of the
// evidence (every sequence up to the bound has a non-empty successor set and never leaves the state set).
func ModelStates() []string {
	return []string{StIdle, StConnect, StActive, StOpenSent, StOpenConfirm, StEstablished, StCeased}
}
