package sess2

import (
	"testing"
	"time"

	"github.com/bio-routing/bio-rd/protocols/bgp/server"

	"verifharness/internal/speaker"
)

func TestProbeActive(t *testing.T) {
	srv := speaker.NewServer(speaker.ServerConfig{})
	p, err := srv.AddPeer(speaker.PeerConfig{LocalAS: 65000, PeerAS: 65001, Active: true})
	if err != nil {
		t.Fatal(err)
	}
	t.Logf("fsms: %+v", p.FSMs())
	t0 := time.Now()
	err = server.VerifFSMEvent(srv.B, srv.VRF, p.Addr, 0, server.ManualStart, time.Second)
	t.Logf("manual start: %v after %v; fsms %+v", err, time.Since(t0), p.FSMs())
	time.Sleep(50 * time.Millisecond)
	t.Logf("fsms %+v", p.FSMs())
	s, err := p.DeliverOutgoing()
	t.Logf("deliver: %v", err)
	err = s.Establish(p.DefaultOpen())
	t.Logf("establish: %v state %s", err, s.State())
	// second, incoming
	s2, err := p.Connect()
	t.Logf("connect2: %v idx %d", err, s2.FSMIndex)
	err = s2.Establish(p.DefaultOpen())
	t.Logf("establish2: %v state %s; first established=%v closed=%v notifs=%v", err, s2.State(), s.Established(), s.Conn.IsClosed(), s.Notifications())
	t.Logf("clients %d", srv.ClientCount(true))
}
