// Package bgpx is the glue between the harness' own case descriptions, bio-rd's route/packet types
// and the independent codec internal/wire, shared by the checks that look at what the update sender
// and the serializers put on the wire (C10, C17, C18).
package bgpx

import (
	"bytes"
	"encoding/hex"
	"fmt"
	"sort"
	"strings"
	"sync"

	bnet "github.com/bio-routing/bio-rd/net"
	"github.com/bio-routing/bio-rd/protocols/bgp/packet"
	"github.com/bio-routing/bio-rd/protocols/bgp/server"
	"github.com/bio-routing/bio-rd/protocols/bgp/types"
	"github.com/bio-routing/bio-rd/route"
	biolog "github.com/bio-routing/bio-rd/util/log"

	"verifharness/internal/gen"
	"verifharness/internal/wire"
)

// Seg is an AS_PATH segment (T: 1 set, 2 sequence).
type Seg struct {
	T uint8    `json:"t"`
	A []uint32 `json:"a"`
}

// Unk is an unknown transitive attribute handed to bio-rd.
type Unk struct {
	Type     uint8  `json:"type"`
	Optional bool   `json:"optional"`
	Partial  bool   `json:"partial,omitempty"`
	Value    string `json:"value"` // hex
}

// PathSpec describes the BGP path handed to bio-rd.
type PathSpec struct {
	Origin    uint8       `json:"origin"`
	ASPath    []Seg       `json:"aspath"`
	V6        bool        `json:"v6,omitempty"`
	NextHop   [2]uint64   `json:"nexthop"` // v4: value in the low 32 bits of [1]
	MED       uint32      `json:"med,omitempty"`
	LocalPref uint32      `json:"localpref,omitempty"`
	Atomic    bool        `json:"atomic,omitempty"`
	Aggr      *[2]uint32  `json:"aggr,omitempty"` // ASN (16 bit), address
	Comms     []uint32    `json:"comms,omitempty"`
	LComms    [][3]uint32 `json:"lcomms,omitempty"`
	OrigID    uint32      `json:"origid,omitempty"`
	Cluster   []uint32    `json:"cluster,omitempty"`
	Unknown   []Unk       `json:"unknown,omitempty"`
	PathID    uint32      `json:"pathid,omitempty"`
	EBGP      bool        `json:"ebgp,omitempty"`
	Source    uint32      `json:"source,omitempty"`
	Prepend   *[2]uint32  `json:"prepend,omitempty"` // ASN, times: BGPPath.Prepend is applied after building
	OTC       uint32      `json:"otc,omitempty"`     // ONLY_TO_CUSTOMER (RFC 9234); 0 = the path carries none
}

// Sess is what a session negotiated, as far as the sender is concerned.
type Sess struct {
	V6      bool `json:"v6"`
	MP      bool `json:"mp"`
	AddPath bool `json:"addpath"`
	IBGP    bool `json:"ibgp"`
	RR      bool `json:"rr"`
	AS4     bool `json:"as4"`
}

func (s Sess) String() string {
	fam := "ipv4"
	if s.V6 {
		fam = "ipv6"
	}
	if s.MP {
		fam += "-mp"
	}
	k := "ebgp"
	if s.RR {
		k = "rrclient"
	} else if s.IBGP {
		k = "ibgp"
	}
	return fmt.Sprintf("%s/%s/addpath=%v/as4=%v", fam, k, s.AddPath, s.AS4)
}

// Kind names the session kind (ebgp, ibgp, rrclient).
func (s Sess) Kind() string {
	if s.RR {
		return "rrclient"
	}
	if s.IBGP {
		return "ibgp"
	}
	return "ebgp"
}

// Family names the family/encoding (ipv4, ipv4-mp, ipv6-mp).
func (s Sess) Family() string {
	f := "ipv4"
	if s.V6 {
		f = "ipv6"
	}
	if s.MP {
		f += "-mp"
	}
	return f
}

// WireOpts are the decode options of the receiving side of such a session.
func (s Sess) WireOpts() wire.Options {
	return wire.Options{AS4: s.AS4, AddPathIPv4: s.AddPath && !s.V6, AddPathIPv6: s.AddPath && s.V6}
}

// BioOpts are bio-rd's decode options of the receiving side of such a session.
func (s Sess) BioOpts() *packet.DecodeOptions {
	return &packet.DecodeOptions{Use32BitASN: s.AS4, AddPathIPv4Unicast: s.AddPath && !s.V6, AddPathIPv6Unicast: s.AddPath && s.V6}
}

// Capture is a thread-safe capture writer that keeps every Write (one serialized message each) apart.
type Capture struct {
	mu   sync.Mutex
	msgs [][]byte
	n    int
	// Gate, when set, is called at the start of every Write (before the bytes are recorded), outside the
	// capture's own lock: a harness can hold bio-rd inside its connection write to widen the window between
	// "dequeued" and "on the wire".
	Gate func(b []byte)
}

func (c *Capture) Write(b []byte) (int, error) {
	if g := c.Gate; g != nil {
		g(b)
	}
	c.mu.Lock()
	c.msgs = append(c.msgs, append([]byte(nil), b...))
	c.n++
	c.mu.Unlock()
	return len(b), nil
}

// Take returns and clears the writes so far, in order.
func (c *Capture) Take() [][]byte {
	c.mu.Lock()
	defer c.mu.Unlock()
	m := c.msgs
	c.msgs = nil
	return m
}

// Writes is the number of Write calls so far.
func (c *Capture) Writes() int {
	c.mu.Lock()
	defer c.mu.Unlock()
	return c.n
}

// CheckFrame checks one write: a whole message of at most 4096 bytes whose header length is its actual length.
// It returns the message type, the body and "" or a description of what is wrong.
func CheckFrame(w []byte) (typ uint8, body []byte, bad string) {
	if len(w) > wire.MaxLen {
		return 0, nil, fmt.Sprintf("message of %d bytes", len(w))
	}
	l, t, err := wire.ParseHeader(w)
	if err != nil {
		return 0, nil, fmt.Sprintf("header: %v (write of %d bytes)", err, len(w))
	}
	if l != len(w) {
		return 0, nil, fmt.Sprintf("header length %d, %d bytes written", l, len(w))
	}
	return t, w[wire.HeaderLen:], ""
}

var attrNames = map[uint8]string{1: "origin", 2: "as-path", 3: "next-hop", 4: "med", 5: "local-pref", 6: "atomic-aggregate", 7: "aggregator", 8: "communities",
	9: "originator-id", 10: "cluster-list", 14: "mp-reach", 15: "mp-unreach", 32: "large-communities", 35: "only-to-customer"}

// AttrName names an attribute type code.
func AttrName(t uint8) string {
	if n, ok := attrNames[t]; ok {
		return n
	}
	return "unknown-attribute"
}

// Culprit names the attribute that makes an UPDATE body undecodable for the reference decoder.
// Attributes are walked in wire order; the walk stops at the first attribute whose value does not
// parse (that attribute is the culprit) or whose type code is not in expected / repeats an earlier
// one (then the bytes are no longer aligned with attribute boundaries and the culprit is the
// attribute before it, whose declared length was wrong: "length-of-<name>").
func Culprit(body []byte, o wire.Options, expected map[uint8]bool) string {
	if len(body) < 4 {
		return "update-lengths"
	}
	wl := int(body[0])<<8 | int(body[1])
	if 4+wl > len(body) {
		return "update-lengths"
	}
	al := int(body[2+wl])<<8 | int(body[3+wl])
	if 4+wl+al > len(body) {
		return "update-lengths"
	}
	attrs, err := wire.SplitAttrs(body[4+wl : 4+wl+al])
	seen := map[uint8]bool{}
	prev := ""
	for _, a := range attrs {
		if (expected != nil && !expected[a.Type]) || seen[a.Type] {
			if prev == "" {
				return "framing"
			}
			return "length-of-" + prev
		}
		seen[a.Type] = true
		if _, e := wire.ParseAttrs([]wire.Attr{a}, o); e != nil {
			return AttrName(a.Type)
		}
		prev = AttrName(a.Type)
	}
	if err != nil {
		if prev == "" {
			return "framing"
		}
		return "length-of-" + prev
	}
	return "nlri"
}

// ExpectedLens gives, per attribute type the spec can produce, the value lengths a correct encoding
// may declare (nil = any length). Types absent from the map are not expected on the wire at all.
func ExpectedLens(p *PathSpec, s Sess) map[uint8][]int {
	m := map[uint8][]int{1: {1}, 2: nil, 3: {4}, 4: {4}, 5: {4}, 6: {0}, 7: {6}, 8: {4 * len(p.Comms)}, 9: {4}, 10: {4 * len(p.Cluster)}, 14: nil, 32: {12 * len(p.LComms)}}
	if s.AS4 {
		m[7] = []int{8} // RFC 6793: AGGREGATOR carries a 4-octet AS number between NEW speakers
	}
	if p.OTC != 0 {
		m[wire.AttrOTC] = []int{4}
	}
	for _, u := range p.Unknown {
		m[u.Type] = []int{len(u.Value) / 2}
	}
	return m
}

// LengthCulprit walks the attribute region header by header and names the first attribute whose declared
// length is not one a correct encoding of the handed content could declare ("" if none before the walk
// loses alignment or ends). Everything after such an attribute is misaligned garbage, so this is the
// one observation that pins which serializer wrote a wrong length.
func LengthCulprit(body []byte, lens map[uint8][]int) (attr string, declared int, typ uint8) {
	if len(body) < 4 {
		return "", 0, 0
	}
	wl := int(body[0])<<8 | int(body[1])
	if 4+wl > len(body) {
		return "", 0, 0
	}
	al := int(body[2+wl])<<8 | int(body[3+wl])
	if 4+wl+al > len(body) {
		return "", 0, 0
	}
	b := body[4+wl : 4+wl+al]
	seen := map[uint8]bool{}
	for len(b) >= 3 {
		t := b[1]
		allowed, ok := lens[t]
		if !ok || seen[t] {
			return "", 0, 0
		}
		seen[t] = true
		var l, h int
		if b[0]&wire.FlagExtLen != 0 {
			if len(b) < 4 {
				return "", 0, 0
			}
			l, h = int(b[2])<<8|int(b[3]), 4
		} else {
			l, h = int(b[2]), 3
		}
		if allowed != nil {
			fits := false
			for _, a := range allowed {
				fits = fits || a == l
			}
			if !fits {
				return AttrName(t), l, t
			}
		}
		if h+l > len(b) {
			return AttrName(t), l, t
		}
		b = b[h+l:]
	}
	return "", 0, 0
}

// DecodeUpdateLenient is wire.DecodeUpdate except that a 6-byte AGGREGATOR on a 4-octet-AS session (a known finding of
// C17: bio-rd keeps a 2-octet aggregator AS) is widened instead of rejected, so that the rest of the message can
// still be judged. widened reports whether that happened.
func DecodeUpdateLenient(body []byte, o wire.Options) (u *wire.Update, widened bool, err error) {
	u, err = wire.DecodeUpdate(body, o)
	if err == nil || !o.AS4 || len(body) < 4 {
		return u, false, err
	}
	wl := int(body[0])<<8 | int(body[1])
	if 4+wl > len(body) {
		return nil, false, err
	}
	al := int(body[2+wl])<<8 | int(body[3+wl])
	if 4+wl+al > len(body) {
		return nil, false, err
	}
	attrs, e := wire.SplitAttrs(body[4+wl : 4+wl+al])
	if e != nil {
		return nil, false, err
	}
	for i, a := range attrs {
		if a.Type == wire.AttrAggregator && len(a.Value) == 6 {
			attrs[i].Value = append([]byte{0, 0}, a.Value...)
			widened = true
		}
	}
	if !widened {
		return nil, false, err
	}
	u = &wire.Update{Attrs: attrs}
	if u.Withdrawn, e = wire.DecodeNLRIs(body[2:2+wl], wire.IPv4Unicast, o.AddPathIPv4); e != nil {
		return nil, false, e
	}
	if u.NLRI, e = wire.DecodeNLRIs(body[4+wl+al:], wire.IPv4Unicast, o.AddPathIPv4); e != nil {
		return nil, false, e
	}
	if u.PA, e = wire.ParseAttrs(attrs, o); e != nil {
		return nil, false, e
	}
	return u, true, nil
}

// NewSender builds a hook sender for the session writing into a fresh capture.
func NewSender(s Sess) (*server.UpdateSender, *Capture) {
	c := &Capture{}
	afi := uint16(packet.AFIIPv4)
	if s.V6 {
		afi = packet.AFIIPv6
	}
	u := server.VerifNewUpdateSender(server.VerifUpdateSenderConfig{Out: c, AFI: afi, SAFI: packet.SAFIUnicast, MultiProtocol: s.MP, AddPath: s.AddPath, IBGP: s.IBGP, RRClient: s.RR, ASN4: s.AS4})
	return u, c
}

func ip(v6 bool, a [2]uint64) *bnet.IP {
	if v6 {
		return bnet.IPv6(a[0], a[1]).Ptr()
	}
	return bnet.IPv4(uint32(a[1])).Ptr()
}

// Bio builds a fresh *route.Path from the spec.
func (p *PathSpec) Bio() *route.Path {
	asp := make(types.ASPath, 0, len(p.ASPath))
	for _, s := range p.ASPath {
		asp = append(asp, types.ASPathSegment{Type: s.T, ASNs: append([]uint32{}, s.A...)})
	}
	b := &route.BGPPath{
		BGPPathA: &route.BGPPathA{NextHop: ip(p.V6, p.NextHop), Source: bnet.IPv4(p.Source).Ptr(), LocalPref: p.LocalPref, MED: p.MED, OriginatorID: p.OrigID,
			EBGP: p.EBGP, AtomicAggregate: p.Atomic, Origin: p.Origin, OnlyToCustomer: p.OTC},
		ASPath:         &asp,
		PathIdentifier: p.PathID,
	}
	b.ASPathLen = asp.Length()
	if p.Aggr != nil {
		b.BGPPathA.Aggregator = &types.Aggregator{ASN: uint16(p.Aggr[0]), Address: p.Aggr[1]}
	}
	if p.Comms != nil {
		c := types.Communities(append([]uint32{}, p.Comms...))
		b.Communities = &c
	}
	if p.LComms != nil {
		lc := make(types.LargeCommunities, len(p.LComms))
		for i, x := range p.LComms {
			lc[i] = types.LargeCommunity{GlobalAdministrator: x[0], DataPart1: x[1], DataPart2: x[2]}
		}
		b.LargeCommunities = &lc
	}
	if p.Cluster != nil {
		cl := types.ClusterList(append([]uint32{}, p.Cluster...))
		b.ClusterList = &cl
	}
	for _, u := range p.Unknown {
		v, _ := hex.DecodeString(u.Value)
		b.UnknownAttributes = append(b.UnknownAttributes, types.UnknownPathAttribute{Optional: u.Optional, Transitive: true, Partial: u.Partial, TypeCode: u.Type, Value: v})
	}
	if p.Prepend != nil {
		b.Prepend(p.Prepend[0], uint16(p.Prepend[1]))
	}
	return &route.Path{Type: route.BGPPathType, BGPPath: b}
}

// FlatASPath is the expected AS path in canonical form: adjacent AS_SEQUENCE segments merged (how a
// sequence is cut into segments of at most 255 is an encoding matter, not content), empty segments dropped.
func FlatASPath(segs []wire.Segment) string {
	var b strings.Builder
	last := uint8(0)
	for _, s := range segs {
		if len(s.ASNs) == 0 {
			continue
		}
		if s.Type == wire.SegSequence && last == wire.SegSequence {
			for _, a := range s.ASNs {
				fmt.Fprintf(&b, " %d", a)
			}
			continue
		}
		if s.Type == wire.SegSet {
			as := append([]uint32(nil), s.ASNs...)
			sort.Slice(as, func(i, j int) bool { return as[i] < as[j] })
			fmt.Fprintf(&b, " {%v}", as)
		} else {
			for _, a := range s.ASNs {
				fmt.Fprintf(&b, " %d", a)
			}
		}
		last = s.Type
	}
	return b.String()
}

// ExpectedASPath is the AS path content of the spec (with the prepend applied by the definition of
// prepending: times copies of the ASN in front, as a sequence).
func (p *PathSpec) ExpectedASPath(extraFront ...uint32) []wire.Segment {
	var out []wire.Segment
	front := append([]uint32{}, extraFront...)
	if p.Prepend != nil {
		for i := uint32(0); i < p.Prepend[1]; i++ {
			front = append(front, p.Prepend[0])
		}
	}
	if len(front) > 0 {
		out = append(out, wire.Segment{Type: wire.SegSequence, ASNs: front})
	}
	for _, s := range p.ASPath {
		out = append(out, wire.Segment{Type: s.T, ASNs: s.A})
	}
	return out
}

// Diff is one disagreement between the content handed to bio-rd and the decoded wire content.
type Diff struct {
	Attr   string
	Detail string
}

func short(s string) string {
	if len(s) > 160 {
		return s[:160] + fmt.Sprintf("…(%d chars)", len(s))
	}
	return s
}

// Expect carries the session-dependent expectations for Compare.
type Expect struct {
	Sess       Sess
	FrontASNs  []uint32 // ASNs an export step prepends (eBGP through the Adj-RIB-Out)
	NextHopAny bool     // next hop is rewritten by the export step: not compared
}

// Compare checks the decoded attributes of one UPDATE against the spec. Where the statement is
// silent (MED 0, LOCAL_PREF towards eBGP, ORIGINATOR_ID/CLUSTER_LIST towards a non-client) absence is
// accepted.
func Compare(p *PathSpec, e Expect, got *wire.PathAttrs) []Diff {
	var d []Diff
	add := func(attr, f string, a ...any) { d = append(d, Diff{attr, short(fmt.Sprintf(f, a...))}) }
	if got.Origin == nil || *got.Origin != p.Origin {
		add("origin", "ORIGIN %v, handed %d", got.Origin, p.Origin)
	}
	want := FlatASPath(p.ExpectedASPath(e.FrontASNs...))
	if !got.HasASPath {
		add("as-path", "no AS_PATH")
	} else if g := FlatASPath(got.ASPath); g != want {
		na, nb := 0, 0
		for _, s := range got.ASPath {
			na += len(s.ASNs)
		}
		for _, s := range p.ExpectedASPath(e.FrontASNs...) {
			nb += len(s.ASNs)
		}
		add("as-path", "AS_PATH on the wire has %d ASNs in %d segments, handed %d ASNs; wire:%s handed:%s", na, len(got.ASPath), nb, g, want)
	}
	// next hop
	var nh []byte
	if got.MPReach != nil {
		nh = got.MPReach.NextHop
	} else {
		nh = got.NextHop
	}
	if !e.NextHopAny {
		wantNH := ip(p.V6, p.NextHop).Bytes()
		if !bytes.Equal(nh, wantNH) {
			add("next-hop", "next hop %x, handed %x", nh, wantNH)
		}
	} else if len(nh) == 0 {
		add("next-hop", "no next hop")
	}
	if e.Sess.MP != (got.MPReach != nil) {
		add("mp-encoding", "MP_REACH_NLRI present=%v on a session with multiprotocol=%v", got.MPReach != nil, e.Sess.MP)
	}
	if p.MED != 0 && (got.MED == nil || *got.MED != p.MED) || p.MED == 0 && got.MED != nil && *got.MED != 0 {
		add("med", "MED %v, handed %d", deref(got.MED), p.MED)
	}
	if e.Sess.IBGP && (got.LocalPref == nil || *got.LocalPref != p.LocalPref) || !e.Sess.IBGP && got.LocalPref != nil && *got.LocalPref != p.LocalPref {
		add("local-pref", "LOCAL_PREF %v, handed %d", deref(got.LocalPref), p.LocalPref)
	}
	if got.AtomicAggregate != p.Atomic {
		add("atomic-aggregate", "ATOMIC_AGGREGATE %v, handed %v", got.AtomicAggregate, p.Atomic)
	}
	switch {
	case p.Aggr == nil && got.Aggregator != nil:
		add("aggregator", "AGGREGATOR present, none handed")
	case p.Aggr != nil && got.Aggregator == nil:
		add("aggregator", "AGGREGATOR missing")
	case p.Aggr != nil:
		a := got.Aggregator
		addr := uint32(a.Addr[0])<<24 | uint32(a.Addr[1])<<16 | uint32(a.Addr[2])<<8 | uint32(a.Addr[3])
		if a.AS != p.Aggr[0]&0xffff || addr != p.Aggr[1] {
			add("aggregator", "AGGREGATOR %d/%08x, handed %d/%08x", a.AS, addr, p.Aggr[0], p.Aggr[1])
		}
	}
	if !eqU32(got.Communities, p.Comms) {
		add("communities", "COMMUNITIES: %d on the wire, %d handed", len(got.Communities), len(p.Comms))
	}
	if len(got.LargeCommunities) != len(p.LComms) {
		add("large-communities", "LARGE_COMMUNITIES: %d on the wire, %d handed", len(got.LargeCommunities), len(p.LComms))
	} else {
		for i, c := range got.LargeCommunities {
			if [3]uint32{c.Global, c.Local1, c.Local2} != p.LComms[i] {
				add("large-communities", "LARGE_COMMUNITIES differ at %d", i)
				break
			}
		}
	}
	if e.Sess.RR {
		if deref(got.OriginatorID) != p.OrigID {
			add("originator-id", "ORIGINATOR_ID %d, handed %d", deref(got.OriginatorID), p.OrigID)
		}
		if !eqU32(got.ClusterList, p.Cluster) {
			add("cluster-list", "CLUSTER_LIST: %d entries on the wire, %d handed (%v vs %v)", len(got.ClusterList), len(p.Cluster), got.ClusterList, p.Cluster)
		}
	} else {
		if got.OriginatorID != nil && *got.OriginatorID != p.OrigID {
			add("originator-id", "ORIGINATOR_ID %d, handed %d", *got.OriginatorID, p.OrigID)
		}
		if got.ClusterList != nil && !eqU32(got.ClusterList, p.Cluster) {
			add("cluster-list", "CLUSTER_LIST %v, handed %v", got.ClusterList, p.Cluster)
		}
	}
	// unknown attributes
	if len(got.Unknown) != len(p.Unknown) {
		add("unknown-attribute", "%d unknown attributes on the wire, %d handed", len(got.Unknown), len(p.Unknown))
	} else {
		for i, u := range p.Unknown {
			g := got.Unknown[i]
			if g.Type != u.Type || hex.EncodeToString(g.Value) != u.Value {
				add("unknown-attribute", "unknown attribute %d: %d bytes on the wire as type %d, handed %d bytes of type %d", i, len(g.Value), g.Type, len(u.Value)/2, u.Type)
				continue
			}
			if (g.Flags&wire.FlagOptional != 0) != u.Optional || g.Flags&wire.FlagTransitive == 0 || (u.Partial && g.Flags&wire.FlagPartial == 0) {
				add("unknown-attribute-flags", "unknown attribute type %d flags %02x, handed optional=%v transitive=true partial=%v", u.Type, g.Flags, u.Optional, u.Partial)
			}
		}
	}
	if p.OTC != 0 && (got.OTC == nil || *got.OTC != p.OTC) {
		if got.OTC == nil {
			add("only-to-customer", "ONLY_TO_CUSTOMER missing, handed %d", p.OTC)
		} else {
			add("only-to-customer", "ONLY_TO_CUSTOMER %d, handed %d", *got.OTC, p.OTC)
		}
	}
	if got.AS4Path != nil || got.HasAS4Path || got.AS4Aggregator != nil || (got.OTC != nil && p.OTC == 0) {
		add("extra-attribute", "attributes nobody handed in: as4path=%v as4aggr=%v otc=%v", got.HasAS4Path, got.AS4Aggregator != nil, got.OTC != nil)
	}
	return d
}

func deref(p *uint32) uint32 {
	if p == nil {
		return 0
	}
	return *p
}

func eqU32(a, b []uint32) bool {
	if len(a) != len(b) {
		return false
	}
	for i := range a {
		if a[i] != b[i] {
			return false
		}
	}
	return true
}

// FromBioAttrs converts bio-rd's decoded attribute list into the typed view of internal/wire, so that the
// two decoders can be compared on the same bytes.
func FromBioAttrs(pa *packet.PathAttribute, as4 bool) (*wire.PathAttrs, error) {
	out := &wire.PathAttrs{}
	nl := func(afi uint16, n *packet.NLRI) []wire.NLRI {
		var ns []wire.NLRI
		for ; n != nil; n = n.Next {
			ns = append(ns, PfxToNLRI(n.Prefix, n.PathIdentifier))
		}
		return ns
	}
	for ; pa != nil; pa = pa.Next {
		switch pa.TypeCode {
		case packet.OriginAttr:
			out.Origin = wire.U8(pa.Value.(uint8))
		case packet.ASPathAttr:
			out.HasASPath = true
			for _, s := range *pa.Value.(*types.ASPath) {
				out.ASPath = append(out.ASPath, wire.Segment{Type: s.Type, ASNs: s.ASNs})
			}
		case packet.NextHopAttr:
			out.NextHop = pa.Value.(*bnet.IP).Bytes()
		case packet.MEDAttr:
			out.MED = wire.U32(pa.Value.(uint32))
		case packet.LocalPrefAttr:
			out.LocalPref = wire.U32(pa.Value.(uint32))
		case packet.AtomicAggrAttr:
			out.AtomicAggregate = true
		case packet.AggregatorAttr:
			a := pa.Value.(types.Aggregator)
			out.Aggregator = &wire.Aggregator{AS: uint32(a.ASN), Addr: [4]byte{byte(a.Address >> 24), byte(a.Address >> 16), byte(a.Address >> 8), byte(a.Address)}}
		case packet.CommunitiesAttr:
			out.Communities = append([]uint32{}, *pa.Value.(*types.Communities)...)
		case packet.OriginatorIDAttr:
			out.OriginatorID = wire.U32(pa.Value.(uint32))
		case packet.ClusterListAttr:
			out.ClusterList = append([]uint32{}, *pa.Value.(*types.ClusterList)...)
		case packet.LargeCommunitiesAttr:
			out.LargeCommunities = []wire.LargeCommunity{}
			for _, c := range *pa.Value.(*types.LargeCommunities) {
				out.LargeCommunities = append(out.LargeCommunities, wire.LargeCommunity{Global: c.GlobalAdministrator, Local1: c.DataPart1, Local2: c.DataPart2})
			}
		case packet.OnlyToCustomerAttr:
			v, ok := pa.Value.(uint32)
			if !ok {
				return nil, fmt.Errorf("attribute %d decoded to %T", pa.TypeCode, pa.Value)
			}
			out.OTC = wire.U32(v)
		case packet.MultiProtocolReachNLRIAttr:
			m := pa.Value.(packet.MultiProtocolReachNLRI)
			r := &wire.MPReach{Family: wire.Family{AFI: m.AFI, SAFI: m.SAFI}, NLRI: nl(m.AFI, m.NLRI)}
			if m.NextHop != nil {
				r.NextHop = m.NextHop.Bytes()
			}
			out.MPReach = r
		case packet.MultiProtocolUnreachNLRIAttr:
			m := pa.Value.(packet.MultiProtocolUnreachNLRI)
			out.MPUnreach = &wire.MPUnreach{Family: wire.Family{AFI: m.AFI, SAFI: m.SAFI}, NLRI: nl(m.AFI, m.NLRI)}
		default:
			v, ok := pa.Value.([]byte)
			if !ok {
				return nil, fmt.Errorf("attribute %d decoded to %T", pa.TypeCode, pa.Value)
			}
			var fl uint8
			if pa.Optional {
				fl |= wire.FlagOptional
			}
			if pa.Transitive {
				fl |= wire.FlagTransitive
			}
			if pa.Partial {
				fl |= wire.FlagPartial
			}
			out.Unknown = append(out.Unknown, wire.Attr{Flags: fl, Type: pa.TypeCode, Value: v})
		}
	}
	return out, nil
}

// PfxToNLRI converts a bio-rd prefix.
func PfxToNLRI(p *bnet.Prefix, id uint32) wire.NLRI {
	g := gen.FromBio(p)
	return wire.FromBits(g.V4, g.Hi, g.Lo, g.Len).WithID(id)
}

// NLRIToP converts a wire NLRI into the harness prefix type.
func NLRIToP(n wire.NLRI) gen.P {
	hi, lo := n.Bits()
	return gen.P{V4: n.AFI == wire.AFIIPv4, Hi: hi, Lo: lo, Len: n.Len}
}

// BioDecodeAgrees decodes raw with packet.Decode under the session's options and compares the result
// with what internal/wire decoded from the same bytes. It returns "" when they agree.
func BioDecodeAgrees(raw []byte, s Sess, w *wire.Update) string {
	m, err := packet.Decode(bytes.NewBuffer(raw), s.BioOpts())
	if err != nil {
		return "packet.Decode rejects the message: " + err.Error()
	}
	u, ok := m.Body.(*packet.BGPUpdate)
	if !ok {
		return fmt.Sprintf("packet.Decode returned %T", m.Body)
	}
	pa, err := FromBioAttrs(u.PathAttributes, s.AS4)
	if err != nil {
		return err.Error()
	}
	// the unknown-attribute view of wire marks OTC/AS4_* as known; bio-rd keeps them raw: compare on the known intersection
	if a, b := pa.Canon(), stripExt(w.PA).Canon(); a != b {
		return short("packet.Decode content differs: bio-rd " + a + " vs reference " + b)
	}
	nl := func(n *packet.NLRI) string {
		var s []string
		for ; n != nil; n = n.Next {
			s = append(s, PfxToNLRI(n.Prefix, n.PathIdentifier).String())
		}
		return strings.Join(s, ",")
	}
	wl := func(ns []wire.NLRI) string {
		var s []string
		for _, n := range ns {
			s = append(s, wire.FromBits(n.AFI == wire.AFIIPv4, first(n.Bits()), second(n.Bits()), n.Len).WithID(n.PathID).String())
		}
		return strings.Join(s, ",")
	}
	if a, b := nl(u.NLRI), wl(w.NLRI); a != b {
		return short("packet.Decode NLRI differ: " + a + " vs " + b)
	}
	if a, b := nl(u.WithdrawnRoutes), wl(w.Withdrawn); a != b {
		return short("packet.Decode withdrawn routes differ: " + a + " vs " + b)
	}
	return ""
}

func first(a, _ uint64) uint64  { return a }
func second(_, b uint64) uint64 { return b }

// stripExt clears the extended-length bit of unknown attributes (bio-rd's decoded form has no such bit in FromBioAttrs).
func stripExt(p *wire.PathAttrs) *wire.PathAttrs {
	q := *p
	q.Unknown = nil
	for _, u := range p.Unknown {
		u.Flags &^= wire.FlagExtLen | 0x0f
		q.Unknown = append(q.Unknown, u)
	}
	return &q
}

type nolog struct{}

func (nolog) Errorf(string, ...interface{})                     {}
func (nolog) Infof(string, ...interface{})                      {}
func (nolog) Debugf(string, ...interface{})                     {}
func (nolog) Error(string)                                      {}
func (nolog) Info(string)                                       {}
func (nolog) Debug(string)                                      {}
func (n nolog) WithFields(biolog.Fields) biolog.LoggerInterface { return n }
func (n nolog) WithError(error) biolog.LoggerInterface          { return n }

// Quiet replaces bio-rd's logger by a discarding one.
func Quiet() { biolog.SetLogger(nolog{}) }

// PanicSite extracts, from a stack dump taken in a deferred recover, the innermost bio-rd function that panicked.
func PanicSite(stack []byte) string {
	lines := strings.Split(string(stack), "\n")
	past := false
	for _, l := range lines {
		if strings.HasPrefix(l, "panic(") {
			past = true
			continue
		}
		if past && strings.HasPrefix(l, "github.com/bio-routing/bio-rd/") {
			fn := l
			if i := strings.LastIndex(fn, "("); i > 0 {
				fn = fn[:i]
			}
			if i := strings.LastIndex(fn, "/"); i >= 0 {
				fn = fn[i+1:]
			}
			return fn
		}
	}
	return "?"
}

// SplitSegs cuts segments into pieces of at most 255 ASNs (what a correct encoder does).
func SplitSegs(in []wire.Segment) []wire.Segment {
	var out []wire.Segment
	for _, s := range in {
		a := s.ASNs
		for len(a) > 255 {
			out = append(out, wire.Segment{Type: s.Type, ASNs: a[:255]})
			a = a[255:]
		}
		out = append(out, wire.Segment{Type: s.Type, ASNs: a})
	}
	return out
}

// ReferenceAttrs is the attribute list a correct speaker would put on the wire for the spec on such a
// session (without NLRI inside MP_REACH_NLRI): used to measure the true size of an attribute block with
// the independent codec.
func ReferenceAttrs(p *PathSpec, s Sess) *wire.PathAttrs {
	a := &wire.PathAttrs{Origin: wire.U8(p.Origin), HasASPath: true, ASPath: SplitSegs(p.ExpectedASPath())}
	nh := ip(p.V6, p.NextHop).Bytes()
	if s.MP {
		fam := wire.IPv4Unicast
		if s.V6 {
			fam = wire.IPv6Unicast
		}
		a.MPReach = &wire.MPReach{Family: fam, NextHop: nh}
	} else {
		a.NextHop = nh
	}
	if p.MED != 0 {
		a.MED = wire.U32(p.MED)
	}
	if s.IBGP {
		a.LocalPref = wire.U32(p.LocalPref)
	}
	a.AtomicAggregate = p.Atomic
	if p.Aggr != nil {
		a.Aggregator = &wire.Aggregator{AS: p.Aggr[0], Addr: [4]byte{byte(p.Aggr[1] >> 24), byte(p.Aggr[1] >> 16), byte(p.Aggr[1] >> 8), byte(p.Aggr[1])}}
	}
	if len(p.Comms) > 0 {
		a.Communities = p.Comms
	}
	for _, c := range p.LComms {
		a.LargeCommunities = append(a.LargeCommunities, wire.LargeCommunity{Global: c[0], Local1: c[1], Local2: c[2]})
	}
	if s.RR {
		a.OriginatorID = wire.U32(p.OrigID)
		if len(p.Cluster) > 0 {
			a.ClusterList = p.Cluster
		}
	}
	if p.OTC != 0 {
		a.OTC = wire.U32(p.OTC)
	}
	for _, u := range p.Unknown {
		v, _ := hex.DecodeString(u.Value)
		fl := uint8(wire.FlagTransitive)
		if u.Optional {
			fl |= wire.FlagOptional
		}
		if u.Partial {
			fl |= wire.FlagPartial
		}
		a.Unknown = append(a.Unknown, wire.Attr{Flags: fl, Type: u.Type, Value: v})
	}
	return a
}

// AttrBytes is the encoded size of an attribute list.
func AttrBytes(as []wire.Attr) int {
	n := 0
	for _, a := range as {
		n += len(a.Encode())
	}
	return n
}

// Pfxs builds n distinct canonical prefixes of one family with mixed lengths, a pure function of
// (v4, n, mode, seed). mode: "mixed" (all NLRI sizes), "short" (/13../16), "host" (/32 or /128).
func Pfxs(v4 bool, n int, mode string, seed uint64) []gen.P {
	w := 128
	if v4 {
		w = 32
	}
	x := seed | 1
	next := func() uint64 { // splitmix64
		x += 0x9e3779b97f4a7c15
		z := x
		z = (z ^ (z >> 30)) * 0xbf58476d1ce4e5b9
		z = (z ^ (z >> 27)) * 0x94d049bb133111eb
		return z ^ (z >> 31)
	}
	out := make([]gen.P, 0, n)
	for i := 0; i < n; i++ {
		l := w
		switch mode {
		case "short":
			l = 13 + int(next()%4)
		case "host":
		default:
			l = 13 + int(next()%uint64(w-12))
			if i < 9 && next()%2 == 0 {
				l = i // /0 ... /8: NLRI of 1 and 2 bytes
			}
		}
		hi, lo := next(), next()
		if l >= 13 {
			hi = hi&^(uint64(0x1fff)<<51) | uint64(i&0x1fff)<<51 // the index in the top 13 bits keeps prefixes distinct
		}
		p := gen.P{V4: v4, Hi: hi, Lo: lo, Len: uint8(l)}.Canon()
		out = append(out, p)
	}
	return out
}
