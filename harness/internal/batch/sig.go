package batch

import "syscall"

var syscallSIGQUIT = syscall.SIGQUIT
