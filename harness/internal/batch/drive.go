package batch

import (
	"encoding/json"
	"fmt"
	"sort"

	"verifharness/internal/vf"
)

// Drive runs cases through Run and feeds everything into the vf run: findings and attributed
// fatal events become violations (with the case attached for replay), counters, coverage sets,
// non-trivial keys and samples are merged, undecidable items make the run inconclusive.
// fatalFeatures adds case-specific features to a crash/hang violation (may be nil).
func Drive(r *vf.Run, cfg Config, cases []any, fatalFeatures func(i int, f Fatal) map[string]string) Outcome {
	raws := make([]json.RawMessage, len(cases))
	for i, c := range cases {
		if rm, ok := c.(json.RawMessage); ok {
			raws[i] = rm
			continue
		}
		b, err := json.Marshal(c)
		if err != nil {
			panic(err)
		}
		raws[i] = b
	}
	out := Run(cfg, raws)
	sets := map[string]map[string]bool{}
	idx := make([]int, 0, len(out.Results))
	for i := range out.Results {
		idx = append(idx, i)
	}
	sort.Ints(idx)
	for _, i := range idx {
		res := out.Results[i]
		for _, f := range res.Findings {
			r.Violate(vf.Violation{Clause: f.Clause, Features: f.Features, Detail: f.Detail, Case: raws[i]})
		}
		for k, v := range res.Counts {
			r.Count(k, v)
		}
		for _, k := range res.Nontrivial {
			r.Nontrivial(k)
		}
		for k, vs := range res.Sets {
			if sets[k] == nil {
				sets[k] = map[string]bool{}
			}
			for _, v := range vs {
				sets[k][v] = true
			}
		}
		if res.Sample != nil {
			r.Sample(res.Sample)
		}
		if res.Inconcl != "" {
			r.Inconclusive(fmt.Sprintf("case %d: %s", i, res.Inconcl))
		}
	}
	var fatalSamples []any
	fatalWhere := map[string]int{}
	for _, f := range out.Fatals {
		if cfg.FatalNotViolation {
			r.Count("process_fatal_events_not_judged", 1)
			fatalWhere[f.Kind+" at "+f.Where+": "+f.Panic]++
			if len(fatalSamples) < 5 {
				fatalSamples = append(fatalSamples, map[string]any{"kind": f.Kind, "where": f.Where, "panic": f.Panic, "case": raws[f.Index]})
			}
			continue
		}
		feat := map[string]string{}
		if fatalFeatures != nil {
			for k, v := range fatalFeatures(f.Index, f) {
				feat[k] = v
			}
		}
		if f.Where != "" {
			feat["where"] = f.Where
		}
		r.Violate(vf.Violation{Clause: f.Kind, Features: feat, Detail: fmt.Sprintf("%s\n%s", f.Panic, f.Log), Case: raws[f.Index]})
		r.Count("process_fatal_events", 1)
	}
	if cfg.FatalNotViolation && len(out.Fatals) > 0 {
		r.Set("process_fatal_events_by_site", fatalWhere)
		r.Set("process_fatal_event_samples", fatalSamples)
	}
	for _, s := range out.Inconclusive {
		r.Inconclusive(s)
	}
	for k, m := range sets {
		var l []string
		for v := range m {
			l = append(l, v)
		}
		sort.Strings(l)
		r.Set(k, l)
	}
	r.Count("child_processes", out.Children)
	return out
}
