// Package batch runs the cases of a check in child processes so that a process-fatal event in the
// system under test (a panic in one of bio-rd's goroutines, a runtime "fatal error", a hang) is
// attributed to the case that caused it instead of ending the check.
//
// Protocol. The parent writes a batch of cases to <dir>/cases.jsonl and starts its own executable
// with VERIF_BATCH_DIR=<dir>. The child (ChildMain, called first thing in main) runs the cases
// with a few workers; before a case starts it appends "S <index>" to <dir>/side.log, after it
// finished it appends the result to <dir>/results.jsonl and "D <index>" to the side file. When the
// child dies or the watchdog kills it, the cases that were started but not done are the suspects:
// each is re-run alone in a fresh child. A suspect that kills its child again is reported through
// Fatal (clause crash / hang); one that passes alone was a bystander and its result is used. Cases
// that had not been started go into the next child.
package batch

import (
	"bufio"
	"bytes"
	"encoding/json"
	"fmt"
	"os"
	"os/exec"
	"path/filepath"
	"regexp"
	"sort"
	"strconv"
	"strings"
	"sync"
	"time"
)

// Finding is one oracle alarm raised inside a child.
type Finding struct {
	Clause   string            `json:"clause"`
	Features map[string]string `json:"features,omitempty"`
	Detail   string            `json:"detail"`
}

// Result is what a case returns to the parent.
type Result struct {
	Findings   []Finding           `json:"findings,omitempty"`
	Counts     map[string]int      `json:"counts,omitempty"`     // added to the run's measured counters
	Nontrivial []string            `json:"nontrivial,omitempty"` // keys of distinct non-trivial cases
	Sets       map[string][]string `json:"sets,omitempty"`       // named sets of observed values (coverage)
	Sample     any                 `json:"sample,omitempty"`
	Inconcl    string              `json:"inconclusive,omitempty"` // the case could not be decided (watchdog inside the case)
}

// Count adds n to a counter of the result.
func (r *Result) Count(name string, n int) {
	if r.Counts == nil {
		r.Counts = map[string]int{}
	}
	r.Counts[name] += n
}

// Add records a finding.
func (r *Result) Add(clause string, features map[string]string, format string, args ...any) {
	r.Findings = append(r.Findings, Finding{Clause: clause, Features: features, Detail: fmt.Sprintf(format, args...)})
}

// Seen records value v in the named coverage set.
func (r *Result) Seen(set, v string) {
	if r.Sets == nil {
		r.Sets = map[string][]string{}
	}
	for _, x := range r.Sets[set] {
		if x == v {
			return
		}
	}
	r.Sets[set] = append(r.Sets[set], v)
}

// Fatal describes a process-fatal event attributed to one case.
type Fatal struct {
	Index int
	Kind  string // "crash" | "hang"
	Where string // first bio-rd function in the panicking goroutine's stack ("" if unknown)
	Panic string // the panic / fatal error line
	Log   string // tail of the child's stderr
}

// Config configures Run.
type Config struct {
	Name        string        // scratch directory prefix
	PerChild    int           // cases per child (default 400)
	Workers     int           // concurrent cases inside a child (default 8)
	Lanes       int           // children running concurrently (default 1)
	ChildBudget time.Duration // watchdog per child (default 5 min)
	SoloBudget  time.Duration // watchdog for a suspect re-run alone (default 60 s)
	Env         []string      // extra environment for children
	// FatalNotViolation: a crash/hang attributed to a case is counted and sampled in the evidence
	// but not reported as a violation (for properties whose statement is not about survival).
	FatalNotViolation bool
}

const envDir = "VERIF_BATCH_DIR"
const envWorkers = "VERIF_BATCH_WORKERS"

// IsChild reports whether this process was started as a batch child.
func IsChild() bool { return os.Getenv(envDir) != "" }

type caseLine struct {
	I int             `json:"i"`
	C json.RawMessage `json:"c"`
}

type resLine struct {
	I int    `json:"i"`
	R Result `json:"r"`
}

// ChildMain runs the batch found in $VERIF_BATCH_DIR with fn and exits the process.
func ChildMain(fn func(idx int, c json.RawMessage) Result) {
	dir := os.Getenv(envDir)
	workers, _ := strconv.Atoi(os.Getenv(envWorkers))
	if workers < 1 {
		workers = 1
	}
	f, err := os.Open(filepath.Join(dir, "cases.jsonl"))
	if err != nil {
		fmt.Fprintln(os.Stderr, "batch child:", err)
		os.Exit(4)
	}
	var cases []caseLine
	sc := bufio.NewScanner(f)
	sc.Buffer(make([]byte, 1<<20), 1<<28)
	for sc.Scan() {
		var c caseLine
		if err := json.Unmarshal(sc.Bytes(), &c); err != nil {
			fmt.Fprintln(os.Stderr, "batch child: bad case line:", err)
			os.Exit(4)
		}
		cases = append(cases, c)
	}
	f.Close()
	side, err := os.OpenFile(filepath.Join(dir, "side.log"), os.O_CREATE|os.O_WRONLY|os.O_APPEND, 0o644)
	if err != nil {
		os.Exit(4)
	}
	res, err := os.OpenFile(filepath.Join(dir, "results.jsonl"), os.O_CREATE|os.O_WRONLY|os.O_APPEND, 0o644)
	if err != nil {
		os.Exit(4)
	}
	var mu sync.Mutex
	var wg sync.WaitGroup
	ch := make(chan caseLine)
	for w := 0; w < workers; w++ {
		wg.Add(1)
		go func() {
			defer wg.Done()
			for c := range ch {
				mu.Lock()
				fmt.Fprintf(side, "S %d\n", c.I)
				mu.Unlock()
				r := fn(c.I, c.C)
				b, err := json.Marshal(resLine{I: c.I, R: r})
				if err != nil {
					b, _ = json.Marshal(resLine{I: c.I, R: Result{Inconcl: "result not serialisable: " + err.Error()}})
				}
				mu.Lock()
				res.Write(append(b, '\n'))
				fmt.Fprintf(side, "D %d\n", c.I)
				mu.Unlock()
			}
		}()
	}
	for _, c := range cases {
		ch <- c
	}
	close(ch)
	wg.Wait()
	os.Exit(0)
}

type childOut struct {
	results  map[int]Result
	started  map[int]bool
	done     map[int]bool
	abnormal bool
	timedOut bool
	log      string
}

func runChild(dir string, idxs []int, cases []json.RawMessage, workers int, budget time.Duration, env []string) childOut {
	out := childOut{results: map[int]Result{}, started: map[int]bool{}, done: map[int]bool{}}
	os.RemoveAll(dir)
	os.MkdirAll(dir, 0o755)
	var buf bytes.Buffer
	for _, i := range idxs {
		b, _ := json.Marshal(caseLine{I: i, C: cases[i]})
		buf.Write(b)
		buf.WriteByte('\n')
	}
	if err := os.WriteFile(filepath.Join(dir, "cases.jsonl"), buf.Bytes(), 0o644); err != nil {
		out.abnormal = true
		out.log = err.Error()
		return out
	}
	exe, _ := os.Executable()
	cmd := exec.Command(exe)
	cmd.Env = append(os.Environ(), envDir+"="+dir, envWorkers+"="+strconv.Itoa(workers))
	cmd.Env = append(cmd.Env, env...)
	logf, _ := os.Create(filepath.Join(dir, "stderr.log"))
	cmd.Stdout = logf
	cmd.Stderr = logf
	if err := cmd.Start(); err != nil {
		out.abnormal = true
		out.log = err.Error()
		return out
	}
	doneCh := make(chan error, 1)
	go func() { doneCh <- cmd.Wait() }()
	var werr error
	select {
	case werr = <-doneCh:
	case <-time.After(budget):
		out.timedOut = true
		// SIGQUIT first so that the goroutine dump lands in the log
		cmd.Process.Signal(syscallSIGQUIT)
		select {
		case werr = <-doneCh:
		case <-time.After(5 * time.Second):
			cmd.Process.Kill()
			werr = <-doneCh
		}
	}
	logf.Close()
	if werr != nil || out.timedOut {
		out.abnormal = true
	}
	if raw, err := os.ReadFile(filepath.Join(dir, "side.log")); err == nil {
		for _, l := range strings.Split(string(raw), "\n") {
			if len(l) < 3 {
				continue
			}
			n, err := strconv.Atoi(l[2:])
			if err != nil {
				continue
			}
			if l[0] == 'S' {
				out.started[n] = true
			} else if l[0] == 'D' {
				out.done[n] = true
			}
		}
	}
	if f, err := os.Open(filepath.Join(dir, "results.jsonl")); err == nil {
		sc := bufio.NewScanner(f)
		sc.Buffer(make([]byte, 1<<20), 1<<28)
		for sc.Scan() {
			var r resLine
			if json.Unmarshal(sc.Bytes(), &r) == nil {
				out.results[r.I] = r.R
			}
		}
		f.Close()
	}
	if out.abnormal {
		raw, _ := os.ReadFile(filepath.Join(dir, "stderr.log"))
		out.log = string(raw)
	}
	return out
}

var reFrame = regexp.MustCompile(`(?m)^(github\.com/bio-routing/bio-rd/[^\s(]+(?:\([^)]*\))?[^\s(]*)\(`)

// ParseCrash extracts the panic line and the first bio-rd frame of the panicking goroutine.
func ParseCrash(log string) (panicLine, where string) {
	i := strings.Index(log, "panic: ")
	if j := strings.Index(log, "fatal error: "); j >= 0 && (i < 0 || j < i) {
		i = j
	}
	if i < 0 {
		return "", ""
	}
	rest := log[i:]
	if nl := strings.IndexByte(rest, '\n'); nl >= 0 {
		panicLine = rest[:nl]
	} else {
		panicLine = rest
	}
	// first goroutine block after the panic line is the panicking goroutine
	if g := strings.Index(rest, "\ngoroutine "); g >= 0 {
		block := rest[g+1:]
		if e := strings.Index(block, "\n\n"); e >= 0 {
			block = block[:e]
		}
		if m := reFrame.FindStringSubmatch(block); m != nil {
			where = strings.TrimPrefix(m[1], "github.com/bio-routing/bio-rd/")
		}
	}
	return panicLine, where
}

func tail(s string, n int) string {
	if len(s) <= n {
		return s
	}
	return "…" + s[len(s)-n:]
}

func head(s string, n int) string {
	if len(s) <= n {
		return s
	}
	return s[:n] + "…"
}

// Outcome is what Run reports.
type Outcome struct {
	Results      map[int]Result
	Fatals       []Fatal
	Inconclusive []string // watchdog firings / crashes that could not be attributed
	Children     int
}

// Run executes all cases in children and returns results, attributed fatal events and what could not be decided.
// cfg.Lanes children run concurrently, each with cfg.Workers concurrent cases. With Workers == 1 a crash has
// exactly one suspect and is attributed to it without a second run (the check's replay reconfirmation
// re-executes it in a fresh process anyway); otherwise every suspect is re-run alone.
func Run(cfg Config, cases []json.RawMessage) Outcome {
	if cfg.PerChild <= 0 {
		cfg.PerChild = 400
	}
	if cfg.Workers <= 0 {
		cfg.Workers = 8
	}
	if cfg.Lanes <= 0 {
		cfg.Lanes = 1
	}
	if cfg.ChildBudget <= 0 {
		cfg.ChildBudget = 5 * time.Minute
	}
	if cfg.SoloBudget <= 0 {
		cfg.SoloBudget = 60 * time.Second
	}
	base := filepath.Join(os.TempDir(), "session", fmt.Sprintf("%s-%d", cfg.Name, os.Getpid()))
	os.MkdirAll(base, 0o755)
	defer os.RemoveAll(base)
	out := Outcome{Results: map[int]Result{}}
	var mu sync.Mutex
	pending := make([]int, len(cases))
	for i := range pending {
		pending[i] = i
	}
	inFlight := 0
	cond := sync.NewCond(&mu)
	debug := os.Getenv("VERIF_BATCH_DEBUG") != ""

	take := func() []int {
		mu.Lock()
		defer mu.Unlock()
		for len(pending) == 0 && inFlight > 0 {
			cond.Wait() // another lane may still push cases back
		}
		if len(pending) == 0 {
			return nil
		}
		n := cfg.PerChild
		if n > len(pending) {
			n = len(pending)
		}
		chunk := append([]int(nil), pending[:n]...)
		pending = pending[n:]
		inFlight++
		return chunk
	}
	done := func(pushBack []int) {
		mu.Lock()
		pending = append(append([]int(nil), pushBack...), pending...)
		inFlight--
		cond.Broadcast()
		mu.Unlock()
	}
	fatalOf := func(i int, so childOut) Fatal {
		f := Fatal{Index: i, Kind: "crash", Log: tail(so.log, 6000)}
		if so.timedOut {
			f.Kind = "hang"
		}
		f.Panic, f.Where = ParseCrash(so.log)
		if f.Kind == "crash" && f.Panic == "" {
			f.Panic = head(strings.TrimSpace(so.log), 300)
		}
		return f
	}

	lane := func(l int) {
		for {
			chunk := take()
			if chunk == nil {
				return
			}
			t0 := time.Now()
			co := runChild(filepath.Join(base, fmt.Sprintf("b%d", l)), chunk, cases, cfg.Workers, cfg.ChildBudget, cfg.Env)
			if debug {
				fmt.Fprintf(os.Stderr, "batch: lane %d child with %d cases took %v (abnormal=%v)\n", l, len(chunk), time.Since(t0), co.abnormal)
			}
			mu.Lock()
			out.Children++
			for i, r := range co.results {
				if co.done[i] {
					out.Results[i] = r
				}
			}
			if !co.abnormal {
				for _, i := range chunk {
					if _, ok := out.Results[i]; !ok {
						out.Inconclusive = append(out.Inconclusive, fmt.Sprintf("case %d: child ended normally without a result", i))
					}
				}
			}
			mu.Unlock()
			if !co.abnormal {
				done(nil)
				continue
			}
			var suspects, notStarted []int
			for _, i := range chunk {
				switch {
				case co.done[i]:
				case co.started[i]:
					suspects = append(suspects, i)
				default:
					notStarted = append(notStarted, i)
				}
			}
			sort.Ints(suspects)
			if len(suspects) == 0 && len(notStarted) == len(chunk) {
				// nothing was even started: infrastructure problem, do not loop for ever
				mu.Lock()
				out.Inconclusive = append(out.Inconclusive, fmt.Sprintf("a child died before starting any case: %s", head(co.log, 400)))
				mu.Unlock()
				done(nil)
				continue
			}
			reproduced := false
			if cfg.Workers == 1 && len(suspects) == 1 && !co.timedOut {
				mu.Lock()
				out.Fatals = append(out.Fatals, fatalOf(suspects[0], co))
				mu.Unlock()
				reproduced = true
			} else {
				for _, i := range suspects {
					t1 := time.Now()
					so := runChild(filepath.Join(base, fmt.Sprintf("solo%d", l)), []int{i}, cases, 1, cfg.SoloBudget, cfg.Env)
					if debug {
						pl, where := ParseCrash(so.log)
						fmt.Fprintf(os.Stderr, "batch: solo case %d took %v abnormal=%v timedOut=%v %s @ %s\n", i, time.Since(t1), so.abnormal, so.timedOut, pl, where)
					}
					mu.Lock()
					out.Children++
					if !so.abnormal {
						if r, ok := so.results[i]; ok {
							out.Results[i] = r
						}
					} else {
						reproduced = true
						out.Fatals = append(out.Fatals, fatalOf(i, so))
					}
					mu.Unlock()
				}
			}
			if !reproduced {
				kind := "crashed"
				if co.timedOut {
					kind = "ran into the watchdog"
				}
				pl, where := ParseCrash(co.log)
				mu.Lock()
				out.Inconclusive = append(out.Inconclusive, fmt.Sprintf("a child %s with cases %v in flight but none of them does it alone (%s at %s)", kind, suspects, pl, where))
				mu.Unlock()
			}
			done(notStarted)
		}
	}
	var wg sync.WaitGroup
	for l := 0; l < cfg.Lanes; l++ {
		wg.Add(1)
		go func(l int) { defer wg.Done(); lane(l) }(l)
	}
	wg.Wait()
	sort.Slice(out.Fatals, func(i, j int) bool { return out.Fatals[i].Index < out.Fatals[j].Index })
	return out
}
