package tbl

import (
	"sync"
	"sync/atomic"

	bnet "github.com/bio-routing/bio-rd/net"
	"github.com/bio-routing/bio-rd/route"
	"github.com/bio-routing/bio-rd/routingtable/filter"
)

// GlobalSeq orders recorder events of all recorders in a process.
var GlobalSeq atomic.Int64

// Event is one callback seen by a Recorder.
type Event struct {
	Seq    int64
	Kind   string // add | initial | remove | replace | refresh | eor | dispose
	Pfx    string
	ID     uint32   // path id (add/initial/remove; replace: new)
	OldID  uint32   // replace: old
	IDs    []uint32 // refresh
	Deep   string   // deep content of the path handed over
	Hidden uint8
}

// Recorder is a RouteTableClient that records every callback and maintains the set of paths it currently holds
// (initial dump + additions - removals). It never calls back into the table it observes.
type Recorder struct {
	Name string
	mu   sync.Mutex
	ev   []Event
	held map[string]map[uint32]int // prefix -> id -> times added
	deep map[string]map[uint32]string
	pfxs map[string]*bnet.Prefix
	dups int
	// KeepDeep stores the deep content of held paths
	KeepDeep bool
	disposed bool
}

func NewRecorder(name string) *Recorder {
	return &Recorder{Name: name, held: map[string]map[uint32]int{}, deep: map[string]map[uint32]string{}, pfxs: map[string]*bnet.Prefix{}}
}

func (r *Recorder) rec(e Event) {
	e.Seq = GlobalSeq.Add(1)
	r.ev = append(r.ev, e)
}

func (r *Recorder) add(kind string, pfx *bnet.Prefix, p *route.Path) {
	r.mu.Lock()
	defer r.mu.Unlock()
	k := pfx.String()
	id := IDOf(p)
	e := Event{Kind: kind, Pfx: k, ID: id}
	if p != nil {
		e.Hidden = p.HiddenReason
	}
	if r.KeepDeep {
		e.Deep = Deep(p)
	}
	r.rec(e)
	if r.held[k] == nil {
		r.held[k] = map[uint32]int{}
		r.deep[k] = map[uint32]string{}
		r.pfxs[k] = pfx
	}
	if r.held[k][id] > 0 {
		r.dups++
	}
	r.held[k][id]++
	if r.KeepDeep {
		r.deep[k][id] = e.Deep
	}
}

func (r *Recorder) AddPath(pfx *bnet.Prefix, p *route.Path) error {
	r.add("add", pfx, p)
	return nil
}

func (r *Recorder) AddPathInitialDump(pfx *bnet.Prefix, p *route.Path) error {
	r.add("initial", pfx, p)
	return nil
}

func (r *Recorder) EndOfRIB() {
	r.mu.Lock()
	r.rec(Event{Kind: "eor"})
	r.mu.Unlock()
}

func (r *Recorder) remove(k string, id uint32) {
	if m := r.held[k]; m != nil {
		delete(m, id) // set semantics: one removal retracts the path however often it was delivered
		if r.deep[k] != nil {
			delete(r.deep[k], id)
		}
		if len(m) == 0 {
			delete(r.held, k)
			delete(r.deep, k)
		}
	}
}

func (r *Recorder) RemovePath(pfx *bnet.Prefix, p *route.Path) bool {
	r.mu.Lock()
	defer r.mu.Unlock()
	k := pfx.String()
	id := IDOf(p)
	e := Event{Kind: "remove", Pfx: k, ID: id}
	if r.KeepDeep {
		e.Deep = Deep(p)
	}
	r.rec(e)
	r.remove(k, id)
	return true
}

func (r *Recorder) ReplacePath(pfx *bnet.Prefix, old *route.Path, new *route.Path) {
	r.mu.Lock()
	k := pfx.String()
	r.rec(Event{Kind: "replace", Pfx: k, ID: IDOf(new), OldID: IDOf(old)})
	r.remove(k, IDOf(old))
	r.mu.Unlock()
	r.add("add", pfx, new)
}

func (r *Recorder) RefreshRoute(pfx *bnet.Prefix, ps []*route.Path) {
	r.mu.Lock()
	r.rec(Event{Kind: "refresh", Pfx: pfx.String(), IDs: SortedIDs(ps)})
	r.mu.Unlock()
}

func (r *Recorder) Dispose() {
	r.mu.Lock()
	r.rec(Event{Kind: "dispose"})
	r.disposed = true
	r.mu.Unlock()
}

// ReplaceFilterChain lets a Recorder stand in where an AdjRIB is expected.
func (r *Recorder) ReplaceFilterChain(filter.Chain) {}

// Held returns prefix -> sorted ids currently held.
func (r *Recorder) Held() map[string][]uint32 {
	r.mu.Lock()
	defer r.mu.Unlock()
	out := map[string][]uint32{}
	for k, m := range r.held {
		ids := make([]uint32, 0, len(m))
		for id := range m {
			ids = append(ids, id)
		}
		sortU32(ids)
		out[k] = ids
	}
	return out
}

// HeldDeep returns prefix -> id -> deep content (KeepDeep only).
func (r *Recorder) HeldDeep() map[string]map[uint32]string {
	r.mu.Lock()
	defer r.mu.Unlock()
	out := map[string]map[uint32]string{}
	for k, m := range r.deep {
		out[k] = map[uint32]string{}
		for id, d := range m {
			out[k][id] = d
		}
	}
	return out
}

// Events returns a copy of the event log from index from.
func (r *Recorder) Events(from int) []Event {
	r.mu.Lock()
	defer r.mu.Unlock()
	if from > len(r.ev) {
		from = len(r.ev)
	}
	return append([]Event{}, r.ev[from:]...)
}

func (r *Recorder) Len() int {
	r.mu.Lock()
	defer r.mu.Unlock()
	return len(r.ev)
}

func (r *Recorder) Dups() int {
	r.mu.Lock()
	defer r.mu.Unlock()
	return r.dups
}

func (r *Recorder) Disposed() bool {
	r.mu.Lock()
	defer r.mu.Unlock()
	return r.disposed
}

func sortU32(a []uint32) {
	for i := 1; i < len(a); i++ {
		for j := i; j > 0 && a[j-1] > a[j]; j-- {
			a[j-1], a[j] = a[j], a[j-1]
		}
	}
}
