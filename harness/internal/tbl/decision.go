package tbl

import "fmt"

// ASLen is the AS_PATH length as RFC 4271 9.1.2.2 a) counts it: a sequence counts its ASNs, a set counts 1.
func (s PathSpec) ASLen() int {
	n := 0
	for _, sg := range s.ASPath {
		if sg.Set {
			n++
		} else {
			n += len(sg.ASNs)
		}
	}
	return n
}

// EffID is the BGP identifier with ORIGINATOR_ID substituting when present (RFC 4456 section 9).
func (s PathSpec) EffID() uint32 {
	if s.OrigID != 0 {
		return s.OrigID
	}
	return s.BGPID
}

// CLLen is the CLUSTER_LIST length, absent counting as 0 (RFC 4456 section 9).
func (s PathSpec) CLLen() int {
	if s.Cluster == nil {
		return 0
	}
	return len(*s.Cluster)
}

// SrcKey orders peer addresses as unsigned numbers (fixed width hex, so that string order is numeric order; the
// histories never mix IPv4 and IPv6 peers whose order the statement does not define).
func (s PathSpec) SrcKey() string {
	if s.Source6 != nil {
		return fmt.Sprintf("6/%016x%016x", s.Source6[0], s.Source6[1])
	}
	return fmt.Sprintf("4/%08x", s.Source)
}

// RFCKey is the tuple of everything the decision process of the C03 statement reads.
func (s PathSpec) RFCKey() string {
	if s.Static {
		return fmt.Sprintf("static/%d", s.ID)
	}
	return fmt.Sprintf("bgp/lp=%d/as=%d/o=%d/med=%d/e=%v/id=%d/cl=%d/src=%s", s.LP, s.ASLen(), s.Origin, s.MED, s.EBGP, s.EffID(), s.CLLen(), s.SrcKey())
}

// FullKey is the key under which selections are compared across arrival orders: the decision attributes plus
// the next hop (bio-rd breaks remaining ties on it, and a different next hop is a different forwarding result). Two
// paths with the same FullKey are indistinguishable to the decision process and may legitimately swap places.
func (s PathSpec) FullKey() string {
	if s.Static {
		return fmt.Sprintf("static/%d", s.ID)
	}
	return fmt.Sprintf("%s/nh=%d", s.RFCKey(), s.NextHop)
}

// Describe renders the raw attributes (for witnesses).
func (s PathSpec) Describe() string {
	if s.Static {
		return fmt.Sprintf("static/%d", s.ID)
	}
	cl := "absent"
	if s.Cluster != nil {
		cl = fmt.Sprint(len(*s.Cluster))
	}
	return fmt.Sprintf("%s/bgpid=%d/orig=%d/cl=%s", s.FullKey(), s.BGPID, s.OrigID, cl)
}

// RefCompare is the decision process literally as the C03 statement gives it. It returns +1 when a is preferred,
// -1 when b is preferred and 0 when every stated step ties (the statement then leaves the choice open), plus the
// name of the deciding step.
func RefCompare(a, b PathSpec) (int, string) {
	switch {
	case a.LP != b.LP:
		return sgn(a.LP > b.LP), "local_pref"
	case a.ASLen() != b.ASLen():
		return sgn(a.ASLen() < b.ASLen()), "as_path_len"
	case a.Origin != b.Origin:
		return sgn(a.Origin < b.Origin), "origin"
	case a.MED != b.MED:
		return sgn(a.MED < b.MED), "med"
	case a.EBGP != b.EBGP:
		return sgn(a.EBGP), "ebgp"
	case a.EffID() != b.EffID():
		return sgn(a.EffID() < b.EffID()), "identifier"
	case a.CLLen() != b.CLLen():
		return sgn(a.CLLen() < b.CLLen()), "cluster_list_len"
	case a.SrcKey() != b.SrcKey():
		return sgn(a.SrcKey() < b.SrcKey()), "peer_address"
	}
	return 0, "unspecified"
}

func sgn(aBetter bool) int {
	if aBetter {
		return 1
	}
	return -1
}

// Diff names the decision-relevant attributes in which two specs differ.
func Diff(a, b PathSpec) []string {
	var d []string
	add := func(c bool, n string) {
		if c {
			d = append(d, n)
		}
	}
	add(a.Static != b.Static, "type")
	if a.Static || b.Static {
		add(a.ID != b.ID, "static_nexthop")
		return d
	}
	add(a.LP != b.LP, "local_pref")
	add(a.ASLen() != b.ASLen(), "as_path_len")
	add(a.Origin != b.Origin, "origin")
	add(a.MED != b.MED, "med")
	add(a.EBGP != b.EBGP, "ebgp")
	add(a.BGPID != b.BGPID, "bgp_identifier")
	add(a.OrigID != b.OrigID, "originator_id")
	add((a.Cluster == nil) != (b.Cluster == nil), "cluster_list_presence")
	add(a.CLLen() != b.CLLen(), "cluster_list_len")
	add(a.SrcKey() != b.SrcKey(), "peer_address")
	add(a.NextHop != b.NextHop, "next_hop")
	return d
}
