// Package tbl holds the coordinator's table-layer helpers: JSON-serialisable path specs that build a fresh
// bio-rd *route.Path on every use, projections/keys of observed paths, and a recording RouteTableClient.
package tbl

import (
	"fmt"
	"sort"
	"strings"

	bnet "github.com/bio-routing/bio-rd/net"
	"github.com/bio-routing/bio-rd/protocols/bgp/types"
	"github.com/bio-routing/bio-rd/route"
)

// Seg is one AS_PATH segment.
type Seg struct {
	Set  bool     `json:"set,omitempty"`
	ASNs []uint32 `json:"asns"`
}

// PathSpec describes a path; Build returns a fresh *route.Path each time (bio-rd mutates what it is given).
type PathSpec struct {
	Static    bool      `json:"static,omitempty"`
	ID        uint32    `json:"id"` // unique id, carried as the last community (BGP) / the next hop (static)
	LP        uint32    `json:"lp,omitempty"`
	ASPath    []Seg     `json:"aspath,omitempty"`
	Origin    uint8     `json:"origin,omitempty"`
	MED       uint32    `json:"med,omitempty"`
	EBGP      bool      `json:"ebgp,omitempty"`
	BGPID     uint32    `json:"bgpid,omitempty"`
	OrigID    uint32    `json:"origid,omitempty"`
	Cluster   *[]uint32 `json:"cluster,omitempty"` // nil = attribute absent
	Source    uint32    `json:"source,omitempty"`  // peer address (IPv4)
	// Source6 != nil: the peer address is this IPv6 address (high, low 64 bits) instead of Source
	Source6 *[2]uint64 `json:"source6,omitempty"`
	NextHop   uint32    `json:"nexthop,omitempty"`
	Comms     []uint32  `json:"comms,omitempty"`
	PathID    uint32    `json:"pathid,omitempty"`
	OTC       uint32    `json:"otc,omitempty"`
	Hidden    uint8     `json:"hidden,omitempty"`
	NoIDComm  bool      `json:"noidcomm,omitempty"` // do not append the id community
}

const idCommBase = 0xFFF00000 // id communities live in 65520:0 .. (never well-known values)

// Build makes a fresh path.
func (s PathSpec) Build() *route.Path {
	if s.Static {
		return &route.Path{Type: route.StaticPathType, HiddenReason: s.Hidden, StaticPath: &route.StaticPath{NextHop: bnet.IPv4(s.ID).Ptr()}}
	}
	asp := make(types.ASPath, 0, len(s.ASPath))
	for _, sg := range s.ASPath {
		t := uint8(types.ASSequence)
		if sg.Set {
			t = types.ASSet
		}
		asp = append(asp, types.ASPathSegment{Type: t, ASNs: append([]uint32{}, sg.ASNs...)})
	}
	src := bnet.IPv4(s.Source).Ptr()
	if s.Source6 != nil {
		src = bnet.IPv6(s.Source6[0], s.Source6[1]).Ptr()
	}
	b := &route.BGPPath{
		BGPPathA: &route.BGPPathA{
			NextHop:        bnet.IPv4(s.NextHop).Ptr(),
			Source:         src,
			LocalPref:      s.LP,
			MED:            s.MED,
			BGPIdentifier:  s.BGPID,
			OriginatorID:   s.OrigID,
			EBGP:           s.EBGP,
			Origin:         s.Origin,
			OnlyToCustomer: s.OTC,
		},
		ASPath:         &asp,
		ASPathLen:      asp.Length(),
		PathIdentifier: s.PathID,
	}
	if s.Cluster != nil {
		cl := types.ClusterList(append([]uint32{}, (*s.Cluster)...))
		b.ClusterList = &cl
	}
	comms := append([]uint32{}, s.Comms...)
	if !s.NoIDComm {
		comms = append(comms, idCommBase|s.ID&0xFFFFF)
	}
	if len(comms) > 0 {
		c := types.Communities(comms)
		b.Communities = &c
	}
	return &route.Path{Type: route.BGPPathType, HiddenReason: s.Hidden, BGPPath: b}
}

// IDOf extracts the unique id from an observed path (0 if none).
func IDOf(p *route.Path) uint32 {
	if p == nil {
		return 0
	}
	switch p.Type {
	case route.StaticPathType:
		if p.StaticPath != nil && p.StaticPath.NextHop != nil {
			return p.StaticPath.NextHop.ToUint32()
		}
	case route.BGPPathType:
		if p.BGPPath != nil && p.BGPPath.Communities != nil {
			cs := *p.BGPPath.Communities
			for i := len(cs) - 1; i >= 0; i-- {
				if cs[i]&0xFFF00000 == idCommBase {
					return cs[i] & 0xFFFFF
				}
			}
		}
	}
	return 0
}

func ipStr(ip *bnet.IP) string {
	if ip == nil {
		return "nil"
	}
	return ip.String()
}

// Deep renders every field reachable from a path canonically (used where the claim is "same content").
func Deep(p *route.Path) string {
	if p == nil {
		return "<nil>"
	}
	var b strings.Builder
	fmt.Fprintf(&b, "type=%d redist=%d hidden=%d", p.Type, p.RedistributedFrom, p.HiddenReason)
	if p.StaticPath != nil {
		fmt.Fprintf(&b, " static{nh=%s}", ipStr(p.StaticPath.NextHop))
	}
	if bp := p.BGPPath; bp != nil {
		fmt.Fprintf(&b, " bgp{pathid=%d aslen=%d postpolicy=%v", bp.PathIdentifier, bp.ASPathLen, bp.BMPPostPolicy)
		if a := bp.BGPPathA; a != nil {
			fmt.Fprintf(&b, " nh=%s src=%s lp=%d med=%d id=%d orig=%d ebgp=%v atomic=%v origin=%d otc=%d", ipStr(a.NextHop), ipStr(a.Source), a.LocalPref, a.MED, a.BGPIdentifier, a.OriginatorID, a.EBGP, a.AtomicAggregate, a.Origin, a.OnlyToCustomer)
			if a.Aggregator != nil {
				fmt.Fprintf(&b, " aggr=%v", *a.Aggregator)
			}
		} else {
			b.WriteString(" A=nil")
		}
		if bp.ASPath != nil {
			b.WriteString(" aspath=")
			for _, s := range *bp.ASPath {
				fmt.Fprintf(&b, "(%d:%v)", s.Type, s.ASNs)
			}
		} else {
			b.WriteString(" aspath=nil")
		}
		if bp.ClusterList != nil {
			fmt.Fprintf(&b, " cl=%v", []uint32(*bp.ClusterList))
		}
		if bp.Communities != nil && len(*bp.Communities) > 0 {
			fmt.Fprintf(&b, " comms=%v", []uint32(*bp.Communities))
		}
		if bp.LargeCommunities != nil && len(*bp.LargeCommunities) > 0 {
			fmt.Fprintf(&b, " lcomms=%v", *bp.LargeCommunities)
		}
		for _, u := range bp.UnknownAttributes {
			fmt.Fprintf(&b, " unk(%d,%v,%v,%v,%x)", u.TypeCode, u.Optional, u.Transitive, u.Partial, u.Value)
		}
		b.WriteString("}")
	}
	return b.String()
}

// SortedIDs returns the sorted ids of a path list.
func SortedIDs(ps []*route.Path) []uint32 {
	out := make([]uint32, 0, len(ps))
	for _, p := range ps {
		out = append(out, IDOf(p))
	}
	sort.Slice(out, func(i, j int) bool { return out[i] < out[j] })
	return out
}

// IDs returns ids in order.
func IDs(ps []*route.Path) []uint32 {
	out := make([]uint32, 0, len(ps))
	for _, p := range ps {
		out = append(out, IDOf(p))
	}
	return out
}
