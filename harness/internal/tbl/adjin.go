package tbl

import (
	bnet "github.com/bio-routing/bio-rd/net"
	"github.com/bio-routing/bio-rd/route"
	"github.com/bio-routing/bio-rd/routingtable"
	"github.com/bio-routing/bio-rd/routingtable/filter"
	"github.com/bio-routing/bio-rd/routingtable/filter/actions"
)

// RFC 9234 roles (value of the role capability).
const (
	RoleProvider = 0
	RoleRS       = 1
	RoleRSClient = 2
	RoleCustomer = 3
	RolePeer     = 4
)

// SessionSpec describes the receiving side of a session (what an Adj-RIB-In is constructed with).
type SessionSpec struct {
	IBGP        bool   `json:"ibgp,omitempty"`
	LocalASN    uint32 `json:"local_asn"`
	PeerASN     uint32 `json:"peer_asn"`
	RouterID    uint32 `json:"router_id"`
	ClusterID   uint32 `json:"cluster_id,omitempty"`
	PeerIP      uint32 `json:"peer_ip"`
	AddPathRX   bool   `json:"addpath_rx,omitempty"`
	RoleEnabled bool   `json:"role_enabled,omitempty"`
	RoleAdv     bool   `json:"role_adv_by_peer,omitempty"`
	RoleLocal   uint8  `json:"role_local,omitempty"`
	RoleRemote  uint8  `json:"role_remote,omitempty"`
	DefaultLP   uint32 `json:"default_lp,omitempty"`
}

func (s SessionSpec) Attrs() routingtable.SessionAttrs {
	return routingtable.SessionAttrs{
		RouterID: s.RouterID, DefaultLocalPreference: s.DefaultLP, PeerIP: bnet.IPv4(s.PeerIP).Ptr(), LocalIP: bnet.IPv4(0xc0a80001).Ptr(),
		Type: route.BGPPathType, IBGP: s.IBGP, LocalASN: s.LocalASN, PeerASN: s.PeerASN, ClusterID: s.ClusterID, AddPathRX: s.AddPathRX,
		PeerRoleEnabled: s.RoleEnabled, PeerRoleAdvByPeer: s.RoleAdv, PeerRoleLocal: s.RoleLocal, PeerRoleRemote: s.RoleRemote,
	}
}

// Ineligible is the reference predicate of C06 (a literal reading of the statement). localASNs / localClusterIDs are
// the ASNs and cluster ids of the VRF. It returns the reason or "".
func Ineligible(p PathSpec, s SessionSpec, localASNs, localClusterIDs map[uint32]bool) string {
	if !s.IBGP && p.ASLenRaw() == 0 {
		return "empty-as-path-ebgp"
	}
	for _, sg := range p.ASPath {
		for _, a := range sg.ASNs {
			if localASNs[a] {
				return "as-loop"
			}
		}
	}
	if p.OrigID != 0 && p.OrigID == s.RouterID {
		return "originator-id"
	}
	if p.Cluster != nil {
		for _, c := range *p.Cluster {
			if localClusterIDs[c] {
				return "cluster-loop"
			}
		}
	}
	if s.RoleEnabled && s.RoleAdv && p.OTC != 0 {
		if s.RoleRemote == RoleCustomer || s.RoleRemote == RoleRSClient {
			return "otc"
		}
		if s.RoleRemote == RolePeer && p.OTC != s.PeerASN {
			return "otc"
		}
	}
	return ""
}

// ASLenRaw counts segments' ASNs (0 = empty AS_PATH).
func (s PathSpec) ASLenRaw() int {
	n := 0
	for _, sg := range s.ASPath {
		n += len(sg.ASNs)
	}
	return n
}

// PolicySpec is a small import/export policy: reject the listed prefixes (exact route filters), then apply the
// set-actions to everything else and accept.
type PolicySpec struct {
	Reject  []string `json:"reject,omitempty"` // exact prefixes (strings) to reject
	SetLP   *uint32  `json:"set_lp,omitempty"`
	SetMED  *uint32  `json:"set_med,omitempty"`
	SetNH   *uint32  `json:"set_nh,omitempty"`
	Prepend *[2]uint32 `json:"prepend,omitempty"` // asn, times
	RejectAll bool   `json:"reject_all,omitempty"`
}

func (p PolicySpec) Rewrites() bool {
	return p.SetLP != nil || p.SetMED != nil || p.SetNH != nil || p.Prepend != nil
}

// Chain builds a fresh bio-rd filter chain.
func (p PolicySpec) Chain() filter.Chain {
	if p.RejectAll {
		return filter.NewDrainFilterChain()
	}
	var terms []*filter.Term
	if len(p.Reject) > 0 {
		var rfs []*filter.RouteFilter
		for _, s := range p.Reject {
			pf, err := bnet.PrefixFromString(s)
			if err != nil {
				panic(err)
			}
			rfs = append(rfs, filter.NewRouteFilter(pf.Dedup(), filter.NewExactMatcher()))
		}
		terms = append(terms, filter.NewTerm("reject-some", []*filter.TermCondition{filter.NewTermConditionWithRouteFilters(rfs...)}, []actions.Action{actions.NewRejectAction()}))
	}
	var acts []actions.Action
	if p.SetLP != nil {
		acts = append(acts, actions.NewSetLocalPrefAction(*p.SetLP))
	}
	if p.SetMED != nil {
		acts = append(acts, actions.NewSetMEDAction(*p.SetMED))
	}
	if p.SetNH != nil {
		acts = append(acts, actions.NewSetNextHopAction(bnet.IPv4(*p.SetNH).Ptr()))
	}
	if p.Prepend != nil {
		acts = append(acts, actions.NewASPathPrependAction(p.Prepend[0], uint16(p.Prepend[1])))
	}
	acts = append(acts, actions.NewAcceptAction())
	terms = append(terms, filter.NewTerm("rewrite-accept", nil, acts))
	return filter.Chain{filter.NewFilter("pol", terms)}
}

// Apply is the reference semantics: rejected?, and the rewritten spec.
func (p PolicySpec) Apply(pfx string, s PathSpec) (bool, PathSpec) {
	if p.RejectAll {
		return true, s
	}
	for _, r := range p.Reject {
		if r == pfx {
			return true, s
		}
	}
	if s.Static {
		return false, s
	}
	if p.SetLP != nil {
		s.LP = *p.SetLP
	}
	if p.SetMED != nil {
		s.MED = *p.SetMED
	}
	if p.SetNH != nil {
		s.NextHop = *p.SetNH
	}
	if p.Prepend != nil && p.Prepend[1] > 0 {
		pre := make([]uint32, p.Prepend[1])
		for i := range pre {
			pre[i] = p.Prepend[0]
		}
		if len(s.ASPath) > 0 && !s.ASPath[0].Set {
			segs := append([]Seg{{ASNs: append(pre, s.ASPath[0].ASNs...)}}, s.ASPath[1:]...)
			s.ASPath = segs
		} else {
			s.ASPath = append([]Seg{{ASNs: pre}}, s.ASPath...)
		}
	}
	return false, s
}

// Proj is the projection under which contributed paths are compared: unique id + the attributes a policy can touch
// + path identifier.
type Proj struct {
	ID     uint32
	LP     uint32
	MED    uint32
	NH     uint32
	ASPath string
	PathID uint32
}

func ProjOfSpec(s PathSpec) Proj {
	return Proj{ID: s.ID, LP: s.LP, MED: s.MED, NH: s.NextHop, ASPath: aspStr(s.ASPath), PathID: s.PathID}
}

func aspStr(segs []Seg) string {
	out := ""
	for _, sg := range segs {
		if len(sg.ASNs) == 0 {
			continue
		}
		if sg.Set {
			out += "{"
		} else {
			out += "("
		}
		for _, a := range sg.ASNs {
			out += u32(a) + " "
		}
		out += ")"
	}
	return out
}

func u32(a uint32) string {
	if a == 0 {
		return "0"
	}
	var b [10]byte
	i := len(b)
	for a > 0 {
		i--
		b[i] = byte('0' + a%10)
		a /= 10
	}
	return string(b[i:])
}

func ProjOfPath(p *route.Path) Proj {
	pr := Proj{ID: IDOf(p)}
	if p == nil || p.BGPPath == nil {
		return pr
	}
	b := p.BGPPath
	pr.PathID = b.PathIdentifier
	if b.BGPPathA != nil {
		pr.LP, pr.MED = b.BGPPathA.LocalPref, b.BGPPathA.MED
		if b.BGPPathA.NextHop != nil {
			pr.NH = b.BGPPathA.NextHop.ToUint32()
		}
	}
	if b.ASPath != nil {
		var segs []Seg
		for _, s := range *b.ASPath {
			segs = append(segs, Seg{Set: s.Type == 1, ASNs: s.ASNs})
		}
		pr.ASPath = aspStr(segs)
	}
	return pr
}
