package wire

import (
	"encoding/binary"
	"fmt"
	"sort"
	"strings"
)

// Options are the per-direction decode/encode options a session negotiated.
type Options struct {
	AS4         bool // AS numbers in AS_PATH and AGGREGATOR are 4 octets (RFC 6793)
	AddPathIPv4 bool // NLRI of IPv4 unicast (classic fields and MP attributes) carry path identifiers
	AddPathIPv6 bool // NLRI of IPv6 unicast carry path identifiers
}

// AddPath reports whether NLRI of family f carry a path identifier.
func (o Options) AddPath(f Family) bool {
	switch f {
	case IPv4Unicast:
		return o.AddPathIPv4
	case IPv6Unicast:
		return o.AddPathIPv6
	}
	return false
}

// Attribute flag bits and type codes.
const (
	FlagOptional   = 0x80
	FlagTransitive = 0x40
	FlagPartial    = 0x20
	FlagExtLen     = 0x10

	AttrOrigin           = 1
	AttrASPath           = 2
	AttrNextHop          = 3
	AttrMED              = 4
	AttrLocalPref        = 5
	AttrAtomicAggregate  = 6
	AttrAggregator       = 7
	AttrCommunities      = 8
	AttrOriginatorID     = 9
	AttrClusterList      = 10
	AttrMPReach          = 14
	AttrMPUnreach        = 15
	AttrAS4Path          = 17
	AttrAS4Aggregator    = 18
	AttrLargeCommunities = 32
	AttrOTC              = 35

	SegSet      = 1
	SegSequence = 2
)

// NLRI is one prefix as carried on the wire. Addr holds ceil(Len/8) bytes exactly as sent
// (bits beyond Len are kept). PathID is meaningful only under add-path. Labels is the raw label
// stack (3 bytes each) of a labeled-unicast NLRI; Len then is the prefix length without labels.
type NLRI struct {
	AFI    uint16
	PathID uint32
	Len    uint8
	Addr   []byte
	Labels [][3]byte
}

// V4 builds an IPv4 NLRI (address bits beyond len are cleared).
func V4(a, b, c, d byte, l uint8) NLRI {
	return mk(AFIIPv4, []byte{a, b, c, d}, l)
}

// V6 builds an IPv6 NLRI from two 64-bit words.
func V6(hi, lo uint64, l uint8) NLRI {
	b := binary.BigEndian.AppendUint64(nil, hi)
	b = binary.BigEndian.AppendUint64(b, lo)
	return mk(AFIIPv6, b, l)
}

// FromBits builds an NLRI from the harness' two-word layout (IPv4: value in the top 32 bits of hi).
func FromBits(v4 bool, hi, lo uint64, l uint8) NLRI {
	if v4 {
		return V4(byte(hi>>56), byte(hi>>48), byte(hi>>40), byte(hi>>32), l)
	}
	return V6(hi, lo, l)
}

func mk(afi uint16, full []byte, l uint8) NLRI {
	n := (int(l) + 7) / 8
	if n > len(full) {
		n = len(full)
	}
	a := append([]byte(nil), full[:n]...)
	if r := int(l) % 8; r != 0 && n > 0 && int(l) <= len(full)*8 {
		a[n-1] &= byte(0xff << (8 - r))
	}
	return NLRI{AFI: afi, Len: l, Addr: a}
}

// WithID returns n with a path identifier.
func (n NLRI) WithID(id uint32) NLRI { n.PathID = id; return n }

// Bits returns the address in the harness' two-word layout (IPv4 in the top 32 bits of hi),
// with bits beyond Len cleared.
func (n NLRI) Bits() (hi, lo uint64) {
	var full [16]byte
	copy(full[:], n.Addr)
	l := int(n.Len)
	for i := range full {
		switch {
		case l >= (i+1)*8:
		case l <= i*8:
			full[i] = 0
		default:
			full[i] &= byte(0xff << (8 - l%8))
		}
	}
	if n.AFI == AFIIPv4 {
		return uint64(binary.BigEndian.Uint32(full[:4])) << 32, 0
	}
	return binary.BigEndian.Uint64(full[:8]), binary.BigEndian.Uint64(full[8:])
}

// Key is a canonical text of the prefix without the path identifier.
func (n NLRI) Key() string {
	hi, lo := n.Bits()
	if n.AFI == AFIIPv4 {
		return fmt.Sprintf("%d.%d.%d.%d/%d", byte(hi>>56), byte(hi>>48), byte(hi>>40), byte(hi>>32), n.Len)
	}
	return fmt.Sprintf("%016x%016x/%d", hi, lo, n.Len)
}

func (n NLRI) String() string {
	s := n.Key()
	if n.PathID != 0 {
		s += fmt.Sprintf("#%d", n.PathID)
	}
	if len(n.Labels) > 0 {
		s += fmt.Sprintf("L%x", n.Labels)
	}
	return s
}

func (n NLRI) encode(b []byte, addPath bool) []byte {
	if addPath {
		b = binary.BigEndian.AppendUint32(b, n.PathID)
	}
	b = append(b, n.Len+uint8(24*len(n.Labels)))
	for _, l := range n.Labels {
		b = append(b, l[:]...)
	}
	return append(b, n.Addr...)
}

// EncodeNLRIs serialises a list of NLRI.
func EncodeNLRIs(ns []NLRI, addPath bool) []byte {
	var b []byte
	for _, n := range ns {
		b = n.encode(b, addPath)
	}
	return b
}

func maxBits(afi uint16) int {
	if afi == AFIIPv4 {
		return 32
	}
	return 128
}

// DecodeNLRIs decodes a region that must tile exactly into NLRI of family f. Prefix lengths
// beyond the family's width are an error.
func DecodeNLRIs(b []byte, f Family, addPath bool) ([]NLRI, error) {
	ns, _, err := decodeNLRIs(b, f, addPath, true)
	return ns, err
}

// decodeNLRIs: tooLong counts NLRI whose prefix length exceeds the family width (only when strict is false).
func decodeNLRIs(b []byte, f Family, addPath bool, strict bool) (ns []NLRI, tooLong int, err error) {
	for len(b) > 0 {
		n := NLRI{AFI: f.AFI}
		if addPath {
			if len(b) < 4 {
				return ns, tooLong, fmt.Errorf("wire: NLRI path identifier truncated")
			}
			n.PathID = binary.BigEndian.Uint32(b)
			b = b[4:]
		}
		if len(b) < 1 {
			return ns, tooLong, fmt.Errorf("wire: NLRI length octet missing")
		}
		bits := int(b[0])
		b = b[1:]
		if f.SAFI == SAFILabeled {
			for {
				if bits < 24 || len(b) < 3 {
					return ns, tooLong, fmt.Errorf("wire: labeled NLRI label stack truncated")
				}
				var l [3]byte
				copy(l[:], b)
				b = b[3:]
				bits -= 24
				n.Labels = append(n.Labels, l)
				// bottom of stack, or the withdraw pseudo labels 0x800000 / 0x000000 (RFC 8277 §2.4)
				if l[2]&1 == 1 || l == [3]byte{0x80, 0, 0} || l == [3]byte{0, 0, 0} {
					break
				}
			}
		}
		nb := (bits + 7) / 8
		if len(b) < nb {
			return ns, tooLong, fmt.Errorf("wire: NLRI of %d bits needs %d bytes, %d left", bits, nb, len(b))
		}
		if bits > maxBits(f.AFI) {
			if strict {
				return ns, tooLong, fmt.Errorf("wire: NLRI prefix length %d exceeds %d", bits, maxBits(f.AFI))
			}
			tooLong++
		}
		n.Len = uint8(bits)
		n.Addr = append([]byte(nil), b[:nb]...)
		b = b[nb:]
		ns = append(ns, n)
	}
	return ns, tooLong, nil
}

// Attr is one path attribute, value raw.
type Attr struct {
	Flags uint8
	Type  uint8
	Value []byte
}

// Encode serialises the attribute; the extended-length form is used iff the flag is set or the value exceeds 255 bytes.
func (a Attr) Encode() []byte {
	fl := a.Flags
	if len(a.Value) > 255 {
		fl |= FlagExtLen
	}
	if fl&FlagExtLen != 0 {
		return append([]byte{fl, a.Type, byte(len(a.Value) >> 8), byte(len(a.Value))}, a.Value...)
	}
	return append([]byte{fl, a.Type, byte(len(a.Value))}, a.Value...)
}

// Segment is one AS_PATH segment.
type Segment struct {
	Type uint8 // SegSet, SegSequence
	ASNs []uint32
}

// Aggregator is the AGGREGATOR attribute.
type Aggregator struct {
	AS   uint32
	Addr [4]byte
}

// LargeCommunity is one RFC 8092 community.
type LargeCommunity struct{ Global, Local1, Local2 uint32 }

// MPReach is MP_REACH_NLRI.
type MPReach struct {
	Family  Family
	NextHop []byte // 4, 16 or 32 bytes (raw)
	NLRI    []NLRI
}

// MPUnreach is MP_UNREACH_NLRI.
type MPUnreach struct {
	Family Family
	NLRI   []NLRI
}

// PathAttrs is the typed view of an attribute list. Pointer / nil-slice = absent, except
// ASPath, where HasASPath distinguishes an empty AS_PATH from none.
type PathAttrs struct {
	Origin           *uint8
	HasASPath        bool
	ASPath           []Segment
	NextHop          []byte // 4 bytes
	MED              *uint32
	LocalPref        *uint32
	AtomicAggregate  bool
	Aggregator       *Aggregator
	Communities      []uint32
	OriginatorID     *uint32
	ClusterList      []uint32
	MPReach          *MPReach
	MPUnreach        *MPUnreach
	AS4Path          []Segment
	HasAS4Path       bool
	AS4Aggregator    *Aggregator
	LargeCommunities []LargeCommunity
	OTC              *uint32
	Unknown          []Attr // anything else, raw, with flags, wire order
}

// U8 / U32 are conveniences for the optional fields.
func U8(v uint8) *uint8    { return &v }
func U32(v uint32) *uint32 { return &v }

// EncodeASPath serialises segments with 2- or 4-octet AS numbers. A segment with more than 255
// ASNs is split into several segments of the same type (each ≤ 255), as RFC 4271 §5.1.2 b) requires.
func EncodeASPath(segs []Segment, as4 bool) []byte {
	var b []byte
	for _, s := range segs {
		asns := s.ASNs
		for first := true; first || len(asns) > 0; first = false {
			n := len(asns)
			if n > 255 {
				n = 255
			}
			b = append(b, s.Type, byte(n))
			for _, a := range asns[:n] {
				if as4 {
					b = binary.BigEndian.AppendUint32(b, a)
				} else {
					b = binary.BigEndian.AppendUint16(b, uint16(a))
				}
			}
			asns = asns[n:]
		}
	}
	return b
}

// DecodeASPath parses segments; the content must fit the value exactly.
func DecodeASPath(v []byte, as4 bool) ([]Segment, error) {
	w := 2
	if as4 {
		w = 4
	}
	var out []Segment
	for len(v) > 0 {
		if len(v) < 2 {
			return nil, fmt.Errorf("wire: AS_PATH segment header truncated")
		}
		t, n := v[0], int(v[1])
		v = v[2:]
		if t != SegSet && t != SegSequence {
			return nil, fmt.Errorf("wire: AS_PATH segment type %d", t)
		}
		if len(v) < n*w {
			return nil, fmt.Errorf("wire: AS_PATH segment of %d ASNs needs %d bytes, %d left", n, n*w, len(v))
		}
		s := Segment{Type: t, ASNs: make([]uint32, n)}
		for i := 0; i < n; i++ {
			if as4 {
				s.ASNs[i] = binary.BigEndian.Uint32(v[i*4:])
			} else {
				s.ASNs[i] = uint32(binary.BigEndian.Uint16(v[i*2:]))
			}
		}
		v = v[n*w:]
		out = append(out, s)
	}
	return out, nil
}

func u32s(v []uint32) []byte {
	var b []byte
	for _, x := range v {
		b = binary.BigEndian.AppendUint32(b, x)
	}
	return b
}

// Build serialises the typed view into raw attributes with canonical flags in ascending type
// order (Unknown attributes are merged in by type code).
func (p *PathAttrs) Build(o Options) []Attr {
	var out []Attr
	wk := uint8(FlagTransitive)
	opt := uint8(FlagOptional)
	ot := uint8(FlagOptional | FlagTransitive)
	if p.Origin != nil {
		out = append(out, Attr{wk, AttrOrigin, []byte{*p.Origin}})
	}
	if p.HasASPath || len(p.ASPath) > 0 {
		out = append(out, Attr{wk, AttrASPath, EncodeASPath(p.ASPath, o.AS4)})
	}
	if p.NextHop != nil {
		out = append(out, Attr{wk, AttrNextHop, append([]byte(nil), p.NextHop...)})
	}
	if p.MED != nil {
		out = append(out, Attr{opt, AttrMED, u32s([]uint32{*p.MED})})
	}
	if p.LocalPref != nil {
		out = append(out, Attr{wk, AttrLocalPref, u32s([]uint32{*p.LocalPref})})
	}
	if p.AtomicAggregate {
		out = append(out, Attr{wk, AttrAtomicAggregate, nil})
	}
	if p.Aggregator != nil {
		var v []byte
		if o.AS4 {
			v = binary.BigEndian.AppendUint32(v, p.Aggregator.AS)
		} else {
			v = binary.BigEndian.AppendUint16(v, uint16(p.Aggregator.AS))
		}
		out = append(out, Attr{ot, AttrAggregator, append(v, p.Aggregator.Addr[:]...)})
	}
	if p.Communities != nil {
		out = append(out, Attr{ot, AttrCommunities, u32s(p.Communities)})
	}
	if p.OriginatorID != nil {
		out = append(out, Attr{opt, AttrOriginatorID, u32s([]uint32{*p.OriginatorID})})
	}
	if p.ClusterList != nil {
		out = append(out, Attr{opt, AttrClusterList, u32s(p.ClusterList)})
	}
	if p.MPReach != nil {
		m := p.MPReach
		v := []byte{byte(m.Family.AFI >> 8), byte(m.Family.AFI), m.Family.SAFI, byte(len(m.NextHop))}
		v = append(v, m.NextHop...)
		v = append(v, 0)
		v = append(v, EncodeNLRIs(m.NLRI, o.AddPath(m.Family))...)
		out = append(out, Attr{opt, AttrMPReach, v})
	}
	if p.MPUnreach != nil {
		m := p.MPUnreach
		v := []byte{byte(m.Family.AFI >> 8), byte(m.Family.AFI), m.Family.SAFI}
		v = append(v, EncodeNLRIs(m.NLRI, o.AddPath(m.Family))...)
		out = append(out, Attr{opt, AttrMPUnreach, v})
	}
	if p.HasAS4Path || len(p.AS4Path) > 0 {
		out = append(out, Attr{ot, AttrAS4Path, EncodeASPath(p.AS4Path, true)})
	}
	if p.AS4Aggregator != nil {
		v := binary.BigEndian.AppendUint32(nil, p.AS4Aggregator.AS)
		out = append(out, Attr{ot, AttrAS4Aggregator, append(v, p.AS4Aggregator.Addr[:]...)})
	}
	if p.LargeCommunities != nil {
		var v []byte
		for _, c := range p.LargeCommunities {
			v = append(v, u32s([]uint32{c.Global, c.Local1, c.Local2})...)
		}
		out = append(out, Attr{ot, AttrLargeCommunities, v})
	}
	if p.OTC != nil {
		out = append(out, Attr{ot, AttrOTC, u32s([]uint32{*p.OTC})})
	}
	out = append(out, p.Unknown...)
	sort.SliceStable(out, func(i, j int) bool { return out[i].Type < out[j].Type })
	return out
}

// Canon renders the content canonically (independent of attribute order and of the
// extended-length bit) for equality comparison.
func (p *PathAttrs) Canon() string {
	var b strings.Builder
	if p.Origin != nil {
		fmt.Fprintf(&b, "origin=%d;", *p.Origin)
	}
	seg := func(name string, has bool, s []Segment) {
		if has || len(s) > 0 {
			fmt.Fprintf(&b, "%s=", name)
			for _, x := range s {
				fmt.Fprintf(&b, "%d%v", x.Type, x.ASNs)
			}
			b.WriteString(";")
		}
	}
	seg("aspath", p.HasASPath, p.ASPath)
	if p.NextHop != nil {
		fmt.Fprintf(&b, "nh=%x;", p.NextHop)
	}
	if p.MED != nil {
		fmt.Fprintf(&b, "med=%d;", *p.MED)
	}
	if p.LocalPref != nil {
		fmt.Fprintf(&b, "lp=%d;", *p.LocalPref)
	}
	if p.AtomicAggregate {
		b.WriteString("atomic;")
	}
	if p.Aggregator != nil {
		fmt.Fprintf(&b, "aggr=%d@%x;", p.Aggregator.AS, p.Aggregator.Addr)
	}
	if p.Communities != nil {
		fmt.Fprintf(&b, "comm=%v;", p.Communities)
	}
	if p.OriginatorID != nil {
		fmt.Fprintf(&b, "orig=%d;", *p.OriginatorID)
	}
	if p.ClusterList != nil {
		fmt.Fprintf(&b, "cl=%v;", p.ClusterList)
	}
	if p.MPReach != nil {
		fmt.Fprintf(&b, "mpreach=%s nh=%x %v;", p.MPReach.Family, p.MPReach.NextHop, p.MPReach.NLRI)
	}
	if p.MPUnreach != nil {
		fmt.Fprintf(&b, "mpunreach=%s %v;", p.MPUnreach.Family, p.MPUnreach.NLRI)
	}
	seg("as4path", p.HasAS4Path, p.AS4Path)
	if p.AS4Aggregator != nil {
		fmt.Fprintf(&b, "as4aggr=%d@%x;", p.AS4Aggregator.AS, p.AS4Aggregator.Addr)
	}
	if p.LargeCommunities != nil {
		fmt.Fprintf(&b, "lcomm=%v;", p.LargeCommunities)
	}
	if p.OTC != nil {
		fmt.Fprintf(&b, "otc=%d;", *p.OTC)
	}
	us := append([]Attr(nil), p.Unknown...)
	sort.SliceStable(us, func(i, j int) bool { return us[i].Type < us[j].Type })
	for _, u := range us {
		fmt.Fprintf(&b, "unk%d/%02x=%x;", u.Type, u.Flags&^FlagExtLen, u.Value)
	}
	return b.String()
}

// Update is an UPDATE message.
type Update struct {
	Withdrawn []NLRI // classic withdrawn routes (IPv4 unicast)
	Attrs     []Attr // raw attributes in wire order
	NLRI      []NLRI // classic NLRI (IPv4 unicast)
	PA        *PathAttrs
}

// FamNLRI ties an NLRI to its family.
type FamNLRI struct {
	Family Family
	NLRI   NLRI
}

// Announced lists every reachable NLRI of the message (classic and MP_REACH).
func (u *Update) Announced() []FamNLRI {
	var out []FamNLRI
	for _, n := range u.NLRI {
		out = append(out, FamNLRI{IPv4Unicast, n})
	}
	if u.PA != nil && u.PA.MPReach != nil {
		for _, n := range u.PA.MPReach.NLRI {
			out = append(out, FamNLRI{u.PA.MPReach.Family, n})
		}
	}
	return out
}

// Withdrawals lists every unreachable NLRI of the message (classic and MP_UNREACH).
func (u *Update) Withdrawals() []FamNLRI {
	var out []FamNLRI
	for _, n := range u.Withdrawn {
		out = append(out, FamNLRI{IPv4Unicast, n})
	}
	if u.PA != nil && u.PA.MPUnreach != nil {
		for _, n := range u.PA.MPUnreach.NLRI {
			out = append(out, FamNLRI{u.PA.MPUnreach.Family, n})
		}
	}
	return out
}

// IsEndOfRIB recognises the RFC 4724 markers: an empty UPDATE (IPv4 unicast) or an UPDATE whose
// only attribute is an empty MP_UNREACH_NLRI.
func (u *Update) IsEndOfRIB() (Family, bool) {
	if len(u.Withdrawn) != 0 || len(u.NLRI) != 0 {
		return Family{}, false
	}
	if len(u.Attrs) == 0 {
		return IPv4Unicast, true
	}
	if len(u.Attrs) == 1 && u.PA != nil && u.PA.MPUnreach != nil && len(u.PA.MPUnreach.NLRI) == 0 {
		return u.PA.MPUnreach.Family, true
	}
	return Family{}, false
}

// Encode serialises the whole message from Withdrawn, Attrs and NLRI. It fails if the result
// would exceed 4096 bytes.
func (u *Update) Encode(o Options) ([]byte, error) {
	b := u.EncodeBody(o)
	if HeaderLen+len(b) > MaxLen {
		return nil, fmt.Errorf("wire: UPDATE of %d bytes", HeaderLen+len(b))
	}
	return Frame(TypeUpdate, b), nil
}

// EncodeBody serialises the UPDATE body without any size check (for hostile input).
func (u *Update) EncodeBody(o Options) []byte {
	w := EncodeNLRIs(u.Withdrawn, o.AddPathIPv4)
	var a []byte
	for _, at := range u.Attrs {
		a = append(a, at.Encode()...)
	}
	b := binary.BigEndian.AppendUint16(nil, uint16(len(w)))
	b = append(b, w...)
	b = binary.BigEndian.AppendUint16(b, uint16(len(a)))
	b = append(b, a...)
	return append(b, EncodeNLRIs(u.NLRI, o.AddPathIPv4)...)
}

// SplitAttrs cuts an attribute region into raw attributes; every header and value must fit exactly.
func SplitAttrs(b []byte) ([]Attr, error) {
	var out []Attr
	for len(b) > 0 {
		if len(b) < 3 {
			return out, fmt.Errorf("wire: attribute header truncated")
		}
		a := Attr{Flags: b[0], Type: b[1]}
		var l int
		if a.Flags&FlagExtLen != 0 {
			if len(b) < 4 {
				return out, fmt.Errorf("wire: attribute header truncated")
			}
			l = int(binary.BigEndian.Uint16(b[2:]))
			b = b[4:]
		} else {
			l = int(b[2])
			b = b[3:]
		}
		if len(b) < l {
			return out, fmt.Errorf("wire: attribute %d declares %d bytes, %d left", a.Type, l, len(b))
		}
		a.Value = append([]byte(nil), b[:l]...)
		b = b[l:]
		out = append(out, a)
	}
	return out, nil
}

func want(a Attr, n int) error {
	if len(a.Value) != n {
		return fmt.Errorf("wire: attribute %d has %d bytes, must have %d", a.Type, len(a.Value), n)
	}
	return nil
}

// ParseAttrs builds the typed view. Strict: fixed sizes and exact tiling are enforced, a
// repeated attribute type is an error.
func ParseAttrs(attrs []Attr, o Options) (*PathAttrs, error) {
	p := &PathAttrs{}
	seen := map[uint8]bool{}
	for _, a := range attrs {
		if seen[a.Type] {
			return nil, fmt.Errorf("wire: attribute %d appears twice", a.Type)
		}
		seen[a.Type] = true
		v := a.Value
		var err error
		switch a.Type {
		case AttrOrigin:
			if err = want(a, 1); err == nil {
				p.Origin = U8(v[0])
			}
		case AttrASPath:
			p.HasASPath = true
			p.ASPath, err = DecodeASPath(v, o.AS4)
		case AttrNextHop:
			if err = want(a, 4); err == nil {
				p.NextHop = append([]byte(nil), v...)
			}
		case AttrMED:
			if err = want(a, 4); err == nil {
				p.MED = U32(binary.BigEndian.Uint32(v))
			}
		case AttrLocalPref:
			if err = want(a, 4); err == nil {
				p.LocalPref = U32(binary.BigEndian.Uint32(v))
			}
		case AttrAtomicAggregate:
			if err = want(a, 0); err == nil {
				p.AtomicAggregate = true
			}
		case AttrAggregator:
			n := 6
			if o.AS4 {
				n = 8
			}
			if err = want(a, n); err == nil {
				ag := &Aggregator{}
				if o.AS4 {
					ag.AS = binary.BigEndian.Uint32(v)
				} else {
					ag.AS = uint32(binary.BigEndian.Uint16(v))
				}
				copy(ag.Addr[:], v[n-4:])
				p.Aggregator = ag
			}
		case AttrCommunities:
			if len(v)%4 != 0 {
				err = fmt.Errorf("wire: COMMUNITIES of %d bytes", len(v))
				break
			}
			p.Communities = make([]uint32, 0, len(v)/4)
			for ; len(v) > 0; v = v[4:] {
				p.Communities = append(p.Communities, binary.BigEndian.Uint32(v))
			}
		case AttrOriginatorID:
			if err = want(a, 4); err == nil {
				p.OriginatorID = U32(binary.BigEndian.Uint32(v))
			}
		case AttrClusterList:
			if len(v)%4 != 0 {
				err = fmt.Errorf("wire: CLUSTER_LIST of %d bytes", len(v))
				break
			}
			p.ClusterList = make([]uint32, 0, len(v)/4)
			for ; len(v) > 0; v = v[4:] {
				p.ClusterList = append(p.ClusterList, binary.BigEndian.Uint32(v))
			}
		case AttrMPReach:
			if len(v) < 5 {
				err = fmt.Errorf("wire: MP_REACH_NLRI of %d bytes", len(v))
				break
			}
			m := &MPReach{Family: Family{binary.BigEndian.Uint16(v), v[2]}}
			nhl := int(v[3])
			if len(v) < 4+nhl+1 {
				err = fmt.Errorf("wire: MP_REACH_NLRI next hop of %d bytes overruns", nhl)
				break
			}
			m.NextHop = append([]byte(nil), v[4:4+nhl]...)
			m.NLRI, err = DecodeNLRIs(v[4+nhl+1:], m.Family, o.AddPath(m.Family))
			p.MPReach = m
		case AttrMPUnreach:
			if len(v) < 3 {
				err = fmt.Errorf("wire: MP_UNREACH_NLRI of %d bytes", len(v))
				break
			}
			m := &MPUnreach{Family: Family{binary.BigEndian.Uint16(v), v[2]}}
			m.NLRI, err = DecodeNLRIs(v[3:], m.Family, o.AddPath(m.Family))
			p.MPUnreach = m
		case AttrAS4Path:
			p.HasAS4Path = true
			p.AS4Path, err = DecodeASPath(v, true)
		case AttrAS4Aggregator:
			if err = want(a, 8); err == nil {
				ag := &Aggregator{AS: binary.BigEndian.Uint32(v)}
				copy(ag.Addr[:], v[4:])
				p.AS4Aggregator = ag
			}
		case AttrLargeCommunities:
			if len(v)%12 != 0 {
				err = fmt.Errorf("wire: LARGE_COMMUNITIES of %d bytes", len(v))
				break
			}
			p.LargeCommunities = make([]LargeCommunity, 0, len(v)/12)
			for ; len(v) > 0; v = v[12:] {
				p.LargeCommunities = append(p.LargeCommunities, LargeCommunity{binary.BigEndian.Uint32(v), binary.BigEndian.Uint32(v[4:]), binary.BigEndian.Uint32(v[8:])})
			}
		case AttrOTC:
			if err = want(a, 4); err == nil {
				p.OTC = U32(binary.BigEndian.Uint32(v))
			}
		default:
			p.Unknown = append(p.Unknown, Attr{a.Flags, a.Type, append([]byte(nil), v...)})
		}
		if err != nil {
			return nil, err
		}
	}
	return p, nil
}

// DecodeUpdate decodes an UPDATE body strictly under the given options.
func DecodeUpdate(body []byte, o Options) (*Update, error) {
	if len(body) < 4 {
		return nil, fmt.Errorf("wire: UPDATE body of %d bytes", len(body))
	}
	wl := int(binary.BigEndian.Uint16(body))
	if 2+wl+2 > len(body) {
		return nil, fmt.Errorf("wire: withdrawn routes length %d overruns", wl)
	}
	al := int(binary.BigEndian.Uint16(body[2+wl:]))
	if 4+wl+al > len(body) {
		return nil, fmt.Errorf("wire: total path attribute length %d overruns", al)
	}
	u := &Update{}
	var err error
	if u.Withdrawn, err = DecodeNLRIs(body[2:2+wl], IPv4Unicast, o.AddPathIPv4); err != nil {
		return nil, fmt.Errorf("withdrawn: %w", err)
	}
	if u.Attrs, err = SplitAttrs(body[4+wl : 4+wl+al]); err != nil {
		return nil, err
	}
	if u.NLRI, err = DecodeNLRIs(body[4+wl+al:], IPv4Unicast, o.AddPathIPv4); err != nil {
		return nil, fmt.Errorf("nlri: %w", err)
	}
	if u.PA, err = ParseAttrs(u.Attrs, o); err != nil {
		return nil, err
	}
	return u, nil
}
