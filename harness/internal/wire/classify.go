package wire

import "encoding/binary"

// Class is a malformation class of an UPDATE (DESIGN.md §4 C19).
type Class string

const (
	// ClassLengthSum: 4 + withdrawn length + attribute length exceed the body, or the body is
	// shorter than the two length fields.
	ClassLengthSum Class = "length-sum"
	// ClassNLRITiling: the withdrawn-routes or NLRI region (classic or inside MP_REACH /
	// MP_UNREACH) does not tile into whole NLRI.
	ClassNLRITiling Class = "nlri-tiling"
	// ClassAttrLength: an attribute header or value overruns the attribute region; a fixed-size
	// attribute (ORIGIN 1, NEXT_HOP 4, MED 4, LOCAL_PREF 4, ATOMIC_AGGREGATE 0, AGGREGATOR 6/8,
	// ORIGINATOR_ID 4) declares another length; AS_PATH / COMMUNITIES / CLUSTER_LIST contents do
	// not fit their declared length exactly; MP_REACH / MP_UNREACH shorter than their fixed part.
	ClassAttrLength Class = "attr-length"
	// ClassPrefixLen: an NLRI (classic, withdrawn, MP_REACH, MP_UNREACH) has a prefix length
	// beyond 32 (IPv4) / 128 (IPv6).
	ClassPrefixLen Class = "prefix-len"
	// ClassMissingMandatory: reachable NLRI are present without ORIGIN, AS_PATH or a next hop
	// (NEXT_HOP for classic NLRI, a non-empty MP_REACH next hop for MP NLRI).
	ClassMissingMandatory Class = "missing-mandatory"
)

// ClassifyUpdate labels an UPDATE body with the malformation classes it falls into. An empty
// result means the body is in none of them (it may still be objectionable for other reasons:
// flags, unknown well-known attributes, semantic errors — those are not classes of C19).
// The classifier goes as far as it can: a body whose length fields overrun is not examined
// further, but attribute-level and NLRI-level classes are all collected.
func ClassifyUpdate(body []byte, o Options) []Class {
	set := map[Class]bool{}
	if len(body) < 4 {
		return []Class{ClassLengthSum}
	}
	wl := int(binary.BigEndian.Uint16(body))
	if 2+wl+2 > len(body) {
		return []Class{ClassLengthSum}
	}
	al := int(binary.BigEndian.Uint16(body[2+wl:]))
	if 4+wl+al > len(body) {
		return []Class{ClassLengthSum}
	}
	nlriRegion := func(b []byte, f Family) []NLRI {
		ns, tooLong, err := decodeNLRIs(b, f, o.AddPath(f), false)
		if err != nil {
			set[ClassNLRITiling] = true
		}
		if tooLong > 0 {
			set[ClassPrefixLen] = true
		}
		return ns
	}
	nlriRegion(body[2:2+wl], IPv4Unicast)
	classic := nlriRegion(body[4+wl+al:], IPv4Unicast)

	attrs, err := SplitAttrs(body[4+wl : 4+wl+al])
	if err != nil {
		set[ClassAttrLength] = true
	}
	has := map[uint8]bool{}
	mpReachNLRI, mpNextHop := false, false
	for _, a := range attrs {
		has[a.Type] = true
		v := a.Value
		fixed := -1
		switch a.Type {
		case AttrOrigin:
			fixed = 1
		case AttrNextHop, AttrMED, AttrLocalPref, AttrOriginatorID:
			fixed = 4
		case AttrAtomicAggregate:
			fixed = 0
		case AttrAggregator:
			fixed = 6
			if o.AS4 {
				fixed = 8
			}
		case AttrASPath:
			if _, e := DecodeASPath(v, o.AS4); e != nil {
				// a bad segment type is not a length defect: re-parse ignoring types
				if !asPathTiles(v, o.AS4) {
					set[ClassAttrLength] = true
				}
			}
		case AttrCommunities, AttrClusterList:
			if len(v)%4 != 0 {
				set[ClassAttrLength] = true
			}
		case AttrMPReach:
			if len(v) < 5 || len(v) < 4+int(v[3])+1 {
				set[ClassAttrLength] = true
				break
			}
			f := Family{binary.BigEndian.Uint16(v), v[2]}
			nhl := int(v[3])
			if f == IPv4Unicast || f == IPv6Unicast {
				if len(nlriRegion(v[4+nhl+1:], f)) > 0 {
					mpReachNLRI = true
				}
				mpNextHop = nhl > 0
			}
		case AttrMPUnreach:
			if len(v) < 3 {
				set[ClassAttrLength] = true
				break
			}
			f := Family{binary.BigEndian.Uint16(v), v[2]}
			if f == IPv4Unicast || f == IPv6Unicast {
				nlriRegion(v[3:], f)
			}
		}
		if fixed >= 0 && len(v) != fixed {
			set[ClassAttrLength] = true
		}
	}
	if len(classic) > 0 && !(has[AttrOrigin] && has[AttrASPath] && has[AttrNextHop]) {
		set[ClassMissingMandatory] = true
	}
	if mpReachNLRI && !(has[AttrOrigin] && has[AttrASPath] && mpNextHop) {
		set[ClassMissingMandatory] = true
	}
	var out []Class
	for _, c := range []Class{ClassLengthSum, ClassNLRITiling, ClassAttrLength, ClassPrefixLen, ClassMissingMandatory} {
		if set[c] {
			out = append(out, c)
		}
	}
	return out
}

func asPathTiles(v []byte, as4 bool) bool {
	w := 2
	if as4 {
		w = 4
	}
	for len(v) > 0 {
		if len(v) < 2 || len(v) < 2+int(v[1])*w {
			return false
		}
		v = v[2+int(v[1])*w:]
	}
	return true
}
