package wire

import (
	"encoding/binary"
	"errors"
	"fmt"
)

// Message types (RFC 4271 §4.1, RFC 2918).
const (
	TypeOpen         = 1
	TypeUpdate       = 2
	TypeNotification = 3
	TypeKeepalive    = 4
	TypeRouteRefresh = 5

	HeaderLen = 19
	MaxLen    = 4096
)

// Address families.
const (
	AFIIPv4 = 1
	AFIIPv6 = 2

	SAFIUnicast = 1
	SAFILabeled = 4
)

// Family is an (AFI, SAFI) pair.
type Family struct {
	AFI  uint16
	SAFI uint8
}

var (
	IPv4Unicast = Family{AFIIPv4, SAFIUnicast}
	IPv6Unicast = Family{AFIIPv6, SAFIUnicast}
)

func (f Family) String() string { return fmt.Sprintf("%d/%d", f.AFI, f.SAFI) }

// Message is one framed BGP message.
type Message struct {
	Type uint8
	Body []byte // without the 19-byte header
	Raw  []byte // header + body
}

// Frame prepends a correct header to body.
func Frame(typ uint8, body []byte) []byte {
	out := make([]byte, HeaderLen+len(body))
	for i := 0; i < 16; i++ {
		out[i] = 0xff
	}
	binary.BigEndian.PutUint16(out[16:], uint16(HeaderLen+len(body)))
	out[18] = typ
	copy(out[HeaderLen:], body)
	return out
}

// Keepalive returns a KEEPALIVE message.
func Keepalive() []byte { return Frame(TypeKeepalive, nil) }

var (
	ErrShort     = errors.New("wire: short header")
	ErrMarker    = errors.New("wire: marker is not all ones")
	ErrBadLength = errors.New("wire: header length out of range")
)

// ParseHeader checks the 19-byte header at the start of b.
func ParseHeader(b []byte) (length int, typ uint8, err error) {
	if len(b) < HeaderLen {
		return 0, 0, ErrShort
	}
	for i := 0; i < 16; i++ {
		if b[i] != 0xff {
			return 0, 0, ErrMarker
		}
	}
	length = int(binary.BigEndian.Uint16(b[16:]))
	typ = b[18]
	if length < HeaderLen || length > MaxLen {
		return length, typ, ErrBadLength
	}
	return length, typ, nil
}

// Split cuts stream into messages using the header length field. rest is the (possibly empty)
// incomplete tail. A bad marker or a length outside 19…4096 stops the split with an error;
// msgs then holds what was cut before it and rest starts at the offending header.
func Split(stream []byte) (msgs []Message, rest []byte, err error) {
	for len(stream) >= HeaderLen {
		l, t, e := ParseHeader(stream)
		if e != nil {
			return msgs, stream, e
		}
		if len(stream) < l {
			break
		}
		msgs = append(msgs, Message{Type: t, Body: stream[HeaderLen:l:l], Raw: stream[:l:l]})
		stream = stream[l:]
	}
	return msgs, stream, nil
}

// ---------------------------------------------------------------------------------------
// OPEN

// Capability codes (RFC 5492 registry).
const (
	CapCodeMP           = 1
	CapCodeRouteRefresh = 2
	CapCodeExtNextHop   = 5
	CapCodeRole         = 9
	CapCodeAS4          = 65
	CapCodeAddPath      = 69
)

// Capability is one capability TLV, value kept raw.
type Capability struct {
	Code  uint8
	Value []byte
}

// OptParam is an OPEN optional parameter other than capabilities (type 2), kept raw.
type OptParam struct {
	Type  uint8
	Value []byte
}

// AddPathTuple is one entry of the add-path capability; Mode: 1 receive, 2 send, 3 both.
type AddPathTuple struct {
	Family Family
	Mode   uint8
}

// ExtNextHopTuple is one entry of the extended next hop capability (RFC 8950).
type ExtNextHopTuple struct {
	AFI, SAFI, NextHopAFI uint16
}

func CapMP(f Family) Capability {
	return Capability{CapCodeMP, []byte{byte(f.AFI >> 8), byte(f.AFI), 0, f.SAFI}}
}
func CapAS4(asn uint32) Capability {
	return Capability{CapCodeAS4, binary.BigEndian.AppendUint32(nil, asn)}
}
func CapRouteRefresh() Capability   { return Capability{CapCodeRouteRefresh, nil} }
func CapRole(role uint8) Capability { return Capability{CapCodeRole, []byte{role}} }
func CapAddPath(ts ...AddPathTuple) Capability {
	var v []byte
	for _, t := range ts {
		v = append(v, byte(t.Family.AFI>>8), byte(t.Family.AFI), t.Family.SAFI, t.Mode)
	}
	return Capability{CapCodeAddPath, v}
}
func CapExtNextHop(ts ...ExtNextHopTuple) Capability {
	var v []byte
	for _, t := range ts {
		v = binary.BigEndian.AppendUint16(v, t.AFI)
		v = binary.BigEndian.AppendUint16(v, t.SAFI)
		v = binary.BigEndian.AppendUint16(v, t.NextHopAFI)
	}
	return Capability{CapCodeExtNextHop, v}
}

// Open is an OPEN message.
type Open struct {
	Version  uint8
	AS       uint16
	HoldTime uint16
	ID       uint32
	Caps     []Capability
	// OtherParams are optional parameters that are not capability parameters.
	OtherParams []OptParam
	// CapsPerParam makes Encode put every capability in its own optional parameter.
	CapsPerParam bool
}

// Encode returns the whole OPEN message (with header).
func (o *Open) Encode() []byte {
	var params []byte
	capTLV := func(c Capability) []byte {
		return append([]byte{c.Code, byte(len(c.Value))}, c.Value...)
	}
	if o.CapsPerParam {
		for _, c := range o.Caps {
			t := capTLV(c)
			params = append(params, 2, byte(len(t)))
			params = append(params, t...)
		}
	} else if len(o.Caps) > 0 {
		var all []byte
		for _, c := range o.Caps {
			all = append(all, capTLV(c)...)
		}
		params = append(params, 2, byte(len(all)))
		params = append(params, all...)
	}
	for _, p := range o.OtherParams {
		params = append(params, p.Type, byte(len(p.Value)))
		params = append(params, p.Value...)
	}
	body := []byte{o.Version, byte(o.AS >> 8), byte(o.AS), byte(o.HoldTime >> 8), byte(o.HoldTime)}
	body = binary.BigEndian.AppendUint32(body, o.ID)
	body = append(body, byte(len(params)))
	body = append(body, params...)
	return Frame(TypeOpen, body)
}

// DecodeOpen decodes an OPEN body (strict: all lengths must fit exactly).
func DecodeOpen(body []byte) (*Open, error) {
	if len(body) < 10 {
		return nil, fmt.Errorf("wire: OPEN body of %d bytes", len(body))
	}
	o := &Open{Version: body[0], AS: binary.BigEndian.Uint16(body[1:]), HoldTime: binary.BigEndian.Uint16(body[3:]), ID: binary.BigEndian.Uint32(body[5:])}
	pl := int(body[9])
	p := body[10:]
	if pl != len(p) {
		return nil, fmt.Errorf("wire: OPEN optional parameter length %d, %d bytes follow", pl, len(p))
	}
	nparams := 0
	for len(p) > 0 {
		if len(p) < 2 || len(p) < 2+int(p[1]) {
			return nil, fmt.Errorf("wire: OPEN optional parameter overruns")
		}
		t, v := p[0], p[2:2+int(p[1])]
		p = p[2+int(p[1]):]
		nparams++
		if t != 2 {
			o.OtherParams = append(o.OtherParams, OptParam{t, append([]byte(nil), v...)})
			continue
		}
		for len(v) > 0 {
			if len(v) < 2 || len(v) < 2+int(v[1]) {
				return nil, fmt.Errorf("wire: capability overruns its parameter")
			}
			o.Caps = append(o.Caps, Capability{v[0], append([]byte(nil), v[2:2+int(v[1])]...)})
			v = v[2+int(v[1]):]
		}
	}
	if nparams > 1 && nparams == len(o.Caps)+len(o.OtherParams) {
		o.CapsPerParam = true
	}
	return o, nil
}

// Has reports whether a capability with that code is present.
func (o *Open) Has(code uint8) bool {
	for _, c := range o.Caps {
		if c.Code == code {
			return true
		}
	}
	return false
}

// MP lists the families of all multiprotocol capabilities.
func (o *Open) MP() []Family {
	var out []Family
	for _, c := range o.Caps {
		if c.Code == CapCodeMP && len(c.Value) == 4 {
			out = append(out, Family{binary.BigEndian.Uint16(c.Value), c.Value[3]})
		}
	}
	return out
}

// AS4 returns the 4-octet AS number capability value.
func (o *Open) AS4() (uint32, bool) {
	for _, c := range o.Caps {
		if c.Code == CapCodeAS4 && len(c.Value) == 4 {
			return binary.BigEndian.Uint32(c.Value), true
		}
	}
	return 0, false
}

// AddPath lists all add-path tuples.
func (o *Open) AddPath() []AddPathTuple {
	var out []AddPathTuple
	for _, c := range o.Caps {
		if c.Code != CapCodeAddPath {
			continue
		}
		for v := c.Value; len(v) >= 4; v = v[4:] {
			out = append(out, AddPathTuple{Family{binary.BigEndian.Uint16(v), v[2]}, v[3]})
		}
	}
	return out
}

// Role returns the RFC 9234 role capability value.
func (o *Open) Role() (uint8, bool) {
	for _, c := range o.Caps {
		if c.Code == CapCodeRole && len(c.Value) == 1 {
			return c.Value[0], true
		}
	}
	return 0, false
}

// ExtNextHop lists the extended next hop tuples.
func (o *Open) ExtNextHop() []ExtNextHopTuple {
	var out []ExtNextHopTuple
	for _, c := range o.Caps {
		if c.Code != CapCodeExtNextHop {
			continue
		}
		for v := c.Value; len(v) >= 6; v = v[6:] {
			out = append(out, ExtNextHopTuple{binary.BigEndian.Uint16(v), binary.BigEndian.Uint16(v[2:]), binary.BigEndian.Uint16(v[4:])})
		}
	}
	return out
}

// ---------------------------------------------------------------------------------------
// NOTIFICATION

// Notification is a NOTIFICATION message.
type Notification struct {
	Code, Subcode uint8
	Data          []byte
}

func (n *Notification) Encode() []byte {
	return Frame(TypeNotification, append([]byte{n.Code, n.Subcode}, n.Data...))
}

func DecodeNotification(body []byte) (*Notification, error) {
	if len(body) < 2 {
		return nil, fmt.Errorf("wire: NOTIFICATION body of %d bytes", len(body))
	}
	return &Notification{body[0], body[1], append([]byte(nil), body[2:]...)}, nil
}

func (n *Notification) String() string { return fmt.Sprintf("NOTIFICATION %d/%d", n.Code, n.Subcode) }
