// Package wire is an independent BGP-4 codec written from the RFCs. It shares no code with
// bio-rd (it imports nothing from github.com/bio-routing/bio-rd) and is the harness' oracle
// for "what was on the wire" and its source of valid and hostile input.
//
// Covered: RFC 4271 header / OPEN / UPDATE / NOTIFICATION / KEEPALIVE, RFC 2918 ROUTE-REFRESH
// (type only), RFC 5492 capabilities (multiprotocol 1, route refresh 2, extended next hop 5,
// role 9, 4-octet AS 65, add-path 69; anything else kept raw), RFC 4760 MP_REACH_NLRI /
// MP_UNREACH_NLRI for IPv4/IPv6 unicast and labeled unicast (SAFI 4, RFC 8277), RFC 7911
// add-path NLRI, RFC 6793 2-octet vs 4-octet AS_PATH / AGGREGATOR / AS4_PATH /
// AS4_AGGREGATOR, RFC 4456 ORIGINATOR_ID / CLUSTER_LIST, RFC 1997 communities, RFC 8092 large
// communities, RFC 9234 OTC (attribute 35), unknown attributes kept raw with their flags.
//
// # API in one screen
//
// Framing
//
//	Frame(typ, body) []byte                  marker + length + type + body
//	ParseHeader(b) (length, typ, err)        19-byte header, checks marker and 19 ≤ length ≤ 4096
//	Split(stream) (msgs, rest, err)          cut a byte stream into Messages by header length
//	Keepalive() []byte
//
// OPEN
//
//	Open{Version, AS, HoldTime, ID, Caps []Capability, OtherParams []OptParam}
//	(*Open).Encode() []byte                  whole message; all capabilities in ONE optional parameter
//	                                         unless CapsPerParam is set
//	DecodeOpen(body) (*Open, error)
//	CapMP, CapAS4, CapAddPath, CapRouteRefresh, CapExtNextHop, CapRole   constructors
//	(*Open).MP(), .AS4(), .AddPath(), .Role(), .ExtNextHop(), .Has(code)  typed accessors
//
// NOTIFICATION
//
//	Notification{Code, Subcode, Data}; (*Notification).Encode(); DecodeNotification(body)
//
// UPDATE
//
//	Options{AS4, AddPathIPv4, AddPathIPv6}   what the session negotiated for the direction decoded
//	Update{Withdrawn []NLRI, Attrs []Attr, NLRI []NLRI, PA *PathAttrs}
//	DecodeUpdate(body, opts) (*Update, error)   strict: every length must fit exactly; fills Attrs
//	                                            (raw, wire order) AND the typed view PA
//	(*Update).Encode(opts) ([]byte, error)      whole message from Withdrawn + Attrs + NLRI
//	                                            (Attrs are raw: build them with PathAttrs.Build)
//	PathAttrs{Origin, ASPath, NextHop, MED, LocalPref, AtomicAggregate, Aggregator, Communities,
//	          OriginatorID, ClusterList, MPReach, MPUnreach, LargeCommunities, OTC, AS4Path,
//	          AS4Aggregator, Unknown}
//	(*PathAttrs).Build(opts) []Attr             canonical flags, ascending type order
//	(*PathAttrs).Canon() string                 canonical text of the content (for equality)
//	Attr{Flags, Type, Value}; Attr.Encode()     extended length used iff flag set or len > 255
//	NLRI{AFI, PathID, Len, Addr, Labels}; V4(a,b,c,d,len), V6(hi,lo,len), N.Bits(), N.String()
//	(*Update).Announced() / .Withdrawals()      all reachable / unreachable NLRI of the message
//	                                            (classic + MP) as (Family, NLRI) pairs
//	(*Update).IsEndOfRIB() (Family, bool)
//	(*Update).EncodeBody(opts) []byte           body without size check (hostile input)
//	SplitAttrs(region) ([]Attr, error); ParseAttrs([]Attr, opts) (*PathAttrs, error)
//	EncodeNLRIs / DecodeNLRIs(region, family, addPath); EncodeASPath / DecodeASPath(value, as4)
//	FromBits(v4, hi, lo, len) NLRI              from the harness' two-word prefix layout (gen.P)
//
// Strict classifier (DESIGN.md §4 C19)
//
//	ClassifyUpdate(body, opts) []Class
//
// returns the malformation classes of an UPDATE body (empty = none of them):
// ClassLengthSum, ClassNLRITiling, ClassAttrLength, ClassPrefixLen, ClassMissingMandatory.
//
// All decoders are total: they return an error instead of panicking on any input.
package wire
