// Package wiretest sanity-checks internal/wire against messages serialised by bio-rd (and bio-rd's
// decoder against messages serialised by internal/wire). It lives outside internal/wire so that the
// codec itself never imports bio-rd.
package wiretest

import (
	"bytes"
	"testing"

	bnet "github.com/bio-routing/bio-rd/net"
	"github.com/bio-routing/bio-rd/protocols/bgp/packet"
	"github.com/bio-routing/bio-rd/protocols/bgp/types"

	"verifharness/internal/wire"
)

func one(t *testing.T, raw []byte) wire.Message {
	t.Helper()
	msgs, rest, err := wire.Split(raw)
	if err != nil || len(rest) != 0 || len(msgs) != 1 {
		t.Fatalf("split: %d msgs, rest %d, err %v", len(msgs), len(rest), err)
	}
	return msgs[0]
}

func TestOpenFromBio(t *testing.T) {
	raw := packet.SerializeOpenMsg(&packet.BGPOpen{Version: 4, ASN: 23456, HoldTime: 90, BGPIdentifier: 0x0a000001,
		OptParams: []packet.OptParam{{Type: 2, Value: packet.Capabilities{
			{Code: packet.MultiProtocolCapabilityCode, Value: packet.MultiProtocolCapability{AFI: 2, SAFI: 1}},
			{Code: packet.ASN4CapabilityCode, Value: packet.ASN4Capability{ASN4: 4200000001}},
			{Code: packet.AddPathCapabilityCode, Value: packet.AddPathCapability{{AFI: 1, SAFI: 1, SendReceive: 3}}},
			{Code: packet.PeerRoleCapabilityCode, Value: packet.PeerRoleCapability{PeerRole: 3}},
		}}}})
	m := one(t, raw)
	if m.Type != wire.TypeOpen {
		t.Fatal("type")
	}
	o, err := wire.DecodeOpen(m.Body)
	if err != nil {
		t.Fatal(err)
	}
	as4, ok := o.AS4()
	role, rok := o.Role()
	if o.AS != 23456 || o.HoldTime != 90 || o.ID != 0x0a000001 || !ok || as4 != 4200000001 || !rok || role != 3 ||
		len(o.MP()) != 1 || o.MP()[0] != wire.IPv6Unicast || len(o.AddPath()) != 1 || o.AddPath()[0] != (wire.AddPathTuple{Family: wire.IPv4Unicast, Mode: 3}) {
		t.Fatalf("open content: %+v", o)
	}
	if !bytes.Equal(o.Encode(), raw) {
		t.Fatalf("re-encode differs:\n%x\n%x", o.Encode(), raw)
	}
	// wire -> bio
	o2 := &wire.Open{Version: 4, AS: 65001, HoldTime: 30, ID: 7, Caps: []wire.Capability{wire.CapMP(wire.IPv4Unicast), wire.CapRouteRefresh(), wire.CapAS4(65001),
		wire.CapExtNextHop(wire.ExtNextHopTuple{AFI: 1, SAFI: 1, NextHopAFI: 2}), wire.CapAddPath(wire.AddPathTuple{Family: wire.IPv6Unicast, Mode: 1})}}
	bm, err := packet.Decode(bytes.NewBuffer(o2.Encode()), &packet.DecodeOptions{})
	if err != nil {
		t.Fatal(err)
	}
	bo := bm.Body.(*packet.BGPOpen)
	if bo.ASN != 65001 || bo.HoldTime != 30 || bo.BGPIdentifier != 7 || len(bo.OptParams) != 1 {
		t.Fatalf("bio open: %+v", bo)
	}
}

func TestSmallMsgs(t *testing.T) {
	m := one(t, packet.SerializeKeepaliveMsg())
	if m.Type != wire.TypeKeepalive || len(m.Body) != 0 || !bytes.Equal(wire.Keepalive(), m.Raw) {
		t.Fatal("keepalive")
	}
	m = one(t, packet.SerializeNotificationMsg(&packet.BGPNotification{ErrorCode: 6, ErrorSubcode: 2}))
	n, err := wire.DecodeNotification(m.Body)
	if err != nil || n.Code != 6 || n.Subcode != 2 || !bytes.Equal(n.Encode(), m.Raw) {
		t.Fatal("notification")
	}
	// split of a stream with incomplete tail
	s := append(append(wire.Keepalive(), m.Raw...), wire.Keepalive()[:10]...)
	msgs, rest, err := wire.Split(s)
	if err != nil || len(msgs) != 2 || len(rest) != 10 {
		t.Fatal("split stream")
	}
}

func bioUpdate(t *testing.T, u *packet.BGPUpdate, eo *packet.EncodeOptions) wire.Message {
	t.Helper()
	raw, err := u.SerializeUpdate(eo)
	if err != nil {
		t.Fatal(err)
	}
	return one(t, raw)
}

func TestUpdateFromBio(t *testing.T) {
	asp := types.ASPath{{Type: types.ASSequence, ASNs: []uint32{65001, 4200000001}}, {Type: types.ASSet, ASNs: []uint32{1, 2, 3}}}
	comms := types.Communities{0xfde80001, 0xffffff01}
	lcomms := types.LargeCommunities{{GlobalAdministrator: 1, DataPart1: 2, DataPart2: 3}}
	cl := types.ClusterList{9, 8}
	nh := bnet.IPv4FromOctets(10, 0, 0, 1)
	pa := &packet.PathAttribute{TypeCode: packet.OriginAttr, Value: uint8(2)}
	pa.Next = &packet.PathAttribute{TypeCode: packet.ASPathAttr, Value: &asp}
	pa.Next.Next = &packet.PathAttribute{TypeCode: packet.NextHopAttr, Value: &nh}
	x := pa.Next.Next
	for _, a := range []*packet.PathAttribute{
		{TypeCode: packet.MEDAttr, Value: uint32(77)},
		{TypeCode: packet.LocalPrefAttr, Value: uint32(200)},
		{TypeCode: packet.AtomicAggrAttr},
		{TypeCode: packet.CommunitiesAttr, Value: &comms},
		{TypeCode: packet.OriginatorIDAttr, Value: uint32(0x01020304)},
		{TypeCode: packet.ClusterListAttr, Value: &cl},
		{TypeCode: packet.LargeCommunitiesAttr, Value: &lcomms},
		{TypeCode: 99, Optional: true, Transitive: true, Value: []byte{1, 2, 3}},
	} {
		x.Next = a
		x = a
	}
	u := &packet.BGPUpdate{PathAttributes: pa,
		NLRI:            &packet.NLRI{PathIdentifier: 5, Prefix: bnet.NewPfx(bnet.IPv4FromOctets(192, 168, 4, 0), 22).Ptr(), Next: &packet.NLRI{PathIdentifier: 6, Prefix: bnet.NewPfx(bnet.IPv4(0), 0).Ptr()}},
		WithdrawnRoutes: &packet.NLRI{PathIdentifier: 1, Prefix: bnet.NewPfx(bnet.IPv4FromOctets(10, 1, 2, 3), 32).Ptr()}}
	for _, addPath := range []bool{false, true} {
		for _, as4 := range []bool{false, true} {
			m := bioUpdate(t, u, &packet.EncodeOptions{UseAddPath: addPath, Use32BitASN: as4})
			o := wire.Options{AS4: as4, AddPathIPv4: addPath}
			w, err := wire.DecodeUpdate(m.Body, o)
			if err != nil {
				t.Fatalf("addpath=%v as4=%v: %v", addPath, as4, err)
			}
			want := &wire.PathAttrs{Origin: wire.U8(2), HasASPath: true, ASPath: []wire.Segment{{Type: 2, ASNs: []uint32{65001, 4200000001}}, {Type: 1, ASNs: []uint32{1, 2, 3}}},
				NextHop: []byte{10, 0, 0, 1}, MED: wire.U32(77), LocalPref: wire.U32(200), AtomicAggregate: true, Communities: []uint32{0xfde80001, 0xffffff01},
				OriginatorID: wire.U32(0x01020304), ClusterList: []uint32{9, 8}, LargeCommunities: []wire.LargeCommunity{{Global: 1, Local1: 2, Local2: 3}},
				Unknown: []wire.Attr{{Flags: 0xc0, Type: 99, Value: []byte{1, 2, 3}}}}
			if !as4 {
				want.ASPath[0].ASNs[1] = 4200000001 & 0xffff
			}
			if w.PA.Canon() != want.Canon() {
				t.Fatalf("addpath=%v as4=%v:\n got %s\nwant %s", addPath, as4, w.PA.Canon(), want.Canon())
			}
			n1, n2, wd := wire.V4(192, 168, 4, 0, 22), wire.V4(0, 0, 0, 0, 0), wire.V4(10, 1, 2, 3, 32)
			if addPath {
				n1, n2, wd = n1.WithID(5), n2.WithID(6), wd.WithID(1)
			}
			if len(w.NLRI) != 2 || w.NLRI[0].String() != n1.String() || w.NLRI[1].String() != n2.String() || len(w.Withdrawn) != 1 || w.Withdrawn[0].String() != wd.String() {
				t.Fatalf("nlri: %v %v", w.NLRI, w.Withdrawn)
			}
			if c := wire.ClassifyUpdate(m.Body, o); len(c) != 0 {
				t.Fatalf("classifier flags a valid update: %v", c)
			}
			// wire -> bio: re-encode the typed view canonically and let bio-rd decode it
			w2 := &wire.Update{Withdrawn: w.Withdrawn, NLRI: w.NLRI, Attrs: want.Build(o)}
			raw2, err := w2.Encode(o)
			if err != nil {
				t.Fatal(err)
			}
			bm, err := packet.Decode(bytes.NewBuffer(raw2), &packet.DecodeOptions{Use32BitASN: as4, AddPathIPv4Unicast: addPath})
			if err != nil {
				t.Fatalf("bio decode of wire encoding: %v", err)
			}
			bu := bm.Body.(*packet.BGPUpdate)
			if bu.NLRI == nil || bu.NLRI.Prefix.String() != "192.168.4.0/22" || bu.NLRI.Next == nil || bu.WithdrawnRoutes == nil {
				t.Fatalf("bio decode content")
			}
			cnt := 0
			for a := bu.PathAttributes; a != nil; a = a.Next {
				cnt++
			}
			if cnt != 11 {
				t.Fatalf("bio decoded %d attributes", cnt)
			}
		}
	}
}

func TestMPFromBio(t *testing.T) {
	asp := types.ASPath{{Type: types.ASSequence, ASNs: []uint32{65001}}}
	nh := bnet.IPv6(0x20010db800000000, 1)
	p1 := bnet.NewPfx(bnet.IPv6(0x20010db800010000, 0), 48).Ptr()
	p2 := bnet.NewPfx(bnet.IPv6(0x20010db8ffff0000, 0xff00000000000000), 72).Ptr()
	pa := &packet.PathAttribute{TypeCode: packet.OriginAttr, Value: uint8(0)}
	pa.Next = &packet.PathAttribute{TypeCode: packet.ASPathAttr, Value: &asp}
	pa.Next.Next = &packet.PathAttribute{TypeCode: packet.MultiProtocolReachNLRIAttr, Value: packet.MultiProtocolReachNLRI{AFI: 2, SAFI: 1, NextHop: &nh,
		NLRI: &packet.NLRI{PathIdentifier: 11, Prefix: p1, Next: &packet.NLRI{PathIdentifier: 12, Prefix: p2}}}}
	pa.Next.Next.Next = &packet.PathAttribute{TypeCode: packet.MultiProtocolUnreachNLRIAttr, Value: packet.MultiProtocolUnreachNLRI{AFI: 2, SAFI: 1,
		NLRI: &packet.NLRI{PathIdentifier: 13, Prefix: p1}}}
	for _, addPath := range []bool{false, true} {
		m := bioUpdate(t, &packet.BGPUpdate{PathAttributes: pa}, &packet.EncodeOptions{UseAddPath: addPath, Use32BitASN: true})
		o := wire.Options{AS4: true, AddPathIPv6: addPath}
		w, err := wire.DecodeUpdate(m.Body, o)
		if err != nil {
			t.Fatal(err)
		}
		an, wd := w.Announced(), w.Withdrawals()
		if len(an) != 2 || len(wd) != 1 || an[0].Family != wire.IPv6Unicast || an[0].NLRI.Key() != wire.V6(0x20010db800010000, 0, 48).Key() ||
			an[1].NLRI.Key() != wire.V6(0x20010db8ffff0000, 0xff00000000000000, 72).Key() || len(w.PA.MPReach.NextHop) != 16 {
			t.Fatalf("mp content: %v %v", an, wd)
		}
		if addPath && (an[0].NLRI.PathID != 11 || an[1].NLRI.PathID != 12 || wd[0].NLRI.PathID != 13) {
			t.Fatalf("path ids: %v %v", an, wd)
		}
		if c := wire.ClassifyUpdate(m.Body, o); len(c) != 0 {
			t.Fatalf("classifier flags a valid update: %v", c)
		}
		// decoding with the wrong add-path option must not succeed silently with the same content
		if w2, err := wire.DecodeUpdate(m.Body, wire.Options{AS4: true, AddPathIPv6: !addPath}); err == nil && len(w2.Announced()) == 2 && w2.Announced()[0].NLRI.Key() == an[0].NLRI.Key() {
			t.Fatal("add-path option has no effect")
		}
		// wire -> bio
		raw2, _ := (&wire.Update{Attrs: w.PA.Build(o)}).Encode(o)
		if _, err := packet.Decode(bytes.NewBuffer(raw2), &packet.DecodeOptions{Use32BitASN: true, AddPathIPv6Unicast: addPath}); err != nil {
			t.Fatalf("bio decode of wire MP encoding: %v", err)
		}
	}
	// End-of-RIB markers
	u, _ := wire.DecodeUpdate([]byte{0, 0, 0, 0}, wire.Options{})
	if f, ok := u.IsEndOfRIB(); !ok || f != wire.IPv4Unicast {
		t.Fatal("eor v4")
	}
	raw, _ := (&wire.Update{Attrs: (&wire.PathAttrs{MPUnreach: &wire.MPUnreach{Family: wire.IPv6Unicast}}).Build(wire.Options{})}).Encode(wire.Options{})
	u, err := wire.DecodeUpdate(raw[19:], wire.Options{})
	if err != nil {
		t.Fatal(err)
	}
	if f, ok := u.IsEndOfRIB(); !ok || f != wire.IPv6Unicast {
		t.Fatal("eor v6")
	}
}

func TestClassifier(t *testing.T) {
	o := wire.Options{AS4: true}
	good := &wire.PathAttrs{Origin: wire.U8(0), HasASPath: true, ASPath: []wire.Segment{{Type: 2, ASNs: []uint32{1, 2}}}, NextHop: []byte{1, 1, 1, 1}, MED: wire.U32(1)}
	body := func(u *wire.Update) []byte { return u.EncodeBody(o) }
	is := func(b []byte, want ...wire.Class) {
		t.Helper()
		got := wire.ClassifyUpdate(b, o)
		if len(got) != len(want) {
			t.Fatalf("got %v want %v", got, want)
		}
		for i := range got {
			if got[i] != want[i] {
				t.Fatalf("got %v want %v", got, want)
			}
		}
	}
	n := []wire.NLRI{wire.V4(10, 0, 0, 0, 8)}
	is(body(&wire.Update{Attrs: good.Build(o), NLRI: n}))
	// length sum
	b := body(&wire.Update{Attrs: good.Build(o), NLRI: n})
	b[0], b[1] = 0xff, 0xff
	is(b, wire.ClassLengthSum)
	// fixed size
	at := good.Build(o)
	at[3].Value = []byte{0, 0, 0, 1, 0} // MED with 5 bytes
	is(body(&wire.Update{Attrs: at, NLRI: n}), wire.ClassAttrLength)
	// AS_PATH contents do not fit
	at = good.Build(o)
	at[1].Value = at[1].Value[:len(at[1].Value)-1]
	is(body(&wire.Update{Attrs: at, NLRI: n}), wire.ClassAttrLength)
	// prefix length 33
	is(body(&wire.Update{Attrs: good.Build(o), NLRI: []wire.NLRI{{AFI: 1, Len: 33, Addr: []byte{1, 2, 3, 4, 5}}}}), wire.ClassPrefixLen)
	// NLRI truncated
	is(body(&wire.Update{Attrs: good.Build(o), NLRI: []wire.NLRI{{AFI: 1, Len: 24, Addr: []byte{1, 2}}}}), wire.ClassNLRITiling)
	// missing mandatory
	is(body(&wire.Update{Attrs: (&wire.PathAttrs{MED: wire.U32(3)}).Build(o), NLRI: n}), wire.ClassMissingMandatory)
	is(body(&wire.Update{NLRI: n}), wire.ClassMissingMandatory)
	mp := &wire.PathAttrs{Origin: wire.U8(0), MPReach: &wire.MPReach{Family: wire.IPv6Unicast, NextHop: make([]byte, 16), NLRI: []wire.NLRI{{AFI: 2, Len: 129, Addr: make([]byte, 17)}}}}
	is(body(&wire.Update{Attrs: mp.Build(o)}), wire.ClassPrefixLen, wire.ClassMissingMandatory)
	// withdraw-only update needs no attributes
	is(body(&wire.Update{Withdrawn: n}))
}
