// Package isish drives bio-rd's IS-IS server on a mock clock, a mock device updater and mock
// ethernet interfaces, and contains an independent minimal IS-IS codec written from ISO 10589,
// RFC 1195, RFC 5303, RFC 5305 and RFC 5301. The codec shares no code with bio-rd: it is the
// source of the PDUs fed to the server and the judge of what the server put on the wire.
package isish

import (
	"encoding/binary"
	"fmt"
)

const (
	PDUL1LANHello = 0x0f
	PDUL2LANHello = 0x10
	PDUP2PHello   = 0x11
	PDUL1LSP      = 0x12
	PDUL2LSP      = 0x14
	PDUL1CSNP     = 0x18
	PDUL2CSNP     = 0x19
	PDUL1PSNP     = 0x1a
	PDUL2PSNP     = 0x1b

	TLVArea       = 1
	TLVISReach    = 2
	TLVISNeighbor = 6
	TLVPadding    = 8
	TLVLSPEntries = 9
	TLVAuth       = 10
	TLVChecksum   = 12
	TLVExtISReach = 22
	TLVProtocols  = 129
	TLVIPIfAddr   = 132
	TLVTERouterID = 134
	TLVExtIPReach = 135
	TLVHostname   = 137
	TLVThreeWay   = 240

	AdjUp   = 0
	AdjInit = 1
	AdjDown = 2
)

// fixed PDU header lengths (the "length indicator" of the common header), ISO 10589 §9
var fixedLen = map[uint8]int{
	PDUL1LANHello: 27, PDUL2LANHello: 27, PDUP2PHello: 20,
	PDUL1LSP: 27, PDUL2LSP: 27, PDUL1CSNP: 33, PDUL2CSNP: 33, PDUL1PSNP: 17, PDUL2PSNP: 17,
}

// LLC is the 802.2 header bio-rd's receive path expects in front of every PDU.
var LLC = []byte{0xfe, 0xfe, 0x03}

// WithLLC returns the frame payload as bio-rd's receiver sees it.
func WithLLC(pdu []byte) []byte {
	return append(append([]byte{}, LLC...), pdu...)
}

type SysID [6]byte

// LSPID = system id (6) + pseudonode id + LSP number.
type LSPID [8]byte

func MkLSPID(s SysID, pn, frag uint8) LSPID {
	var l LSPID
	copy(l[:], s[:])
	l[6], l[7] = pn, frag
	return l
}
func (l LSPID) Sys() SysID { var s SysID; copy(s[:], l[:6]); return s }
func (l LSPID) String() string {
	return fmt.Sprintf("%02x%02x.%02x%02x.%02x%02x.%02x-%02x", l[0], l[1], l[2], l[3], l[4], l[5], l[6], l[7])
}
func (s SysID) String() string {
	return fmt.Sprintf("%02x%02x.%02x%02x.%02x%02x", s[0], s[1], s[2], s[3], s[4], s[5])
}

// Less orders LSP IDs as ISO 10589 does (all eight octets, big endian).
func (l LSPID) Less(m LSPID) bool {
	for i := 0; i < 8; i++ {
		if l[i] != m[i] {
			return l[i] < m[i]
		}
	}
	return false
}

type TLV struct {
	T uint8  `json:"t"`
	V []byte `json:"v"`
}

func tlvBytes(tlvs []TLV) []byte {
	var b []byte
	for _, t := range tlvs {
		b = append(b, t.T, uint8(len(t.V)))
		b = append(b, t.V...)
	}
	return b
}

func header(typ uint8) []byte {
	return []byte{0x83, uint8(fixedLen[typ]), 1, 0, typ, 1, 0, 0}
}

// ---------------------------------------------------------------- hello

type Hello struct {
	CircuitType  uint8
	Sys          SysID
	Hold         uint16
	PDULen       uint16 // filled by Parse; Build computes it
	LocalCircuit uint8
	TLVs         []TLV
}

type ThreeWay struct {
	State        uint8
	ExtCircuit   uint32
	HasExt       bool
	HasNeighbor  bool
	NbrSys       SysID
	NbrCircuit   uint32
	HasNbrCircID bool
}

// TLV encodes the RFC 5303 three-way adjacency TLV (lengths 1, 5, 11 or 15).
func (t ThreeWay) TLV() TLV {
	v := []byte{t.State}
	if t.HasExt {
		v = binary.BigEndian.AppendUint32(v, t.ExtCircuit)
		if t.HasNeighbor {
			v = append(v, t.NbrSys[:]...)
			if t.HasNbrCircID {
				v = binary.BigEndian.AppendUint32(v, t.NbrCircuit)
			}
		}
	}
	return TLV{TLVThreeWay, v}
}

func ParseThreeWay(v []byte) (ThreeWay, error) {
	var t ThreeWay
	switch len(v) {
	case 1, 5, 11, 15:
	default:
		return t, fmt.Errorf("three-way TLV of length %d", len(v))
	}
	t.State = v[0]
	if len(v) >= 5 {
		t.HasExt = true
		t.ExtCircuit = binary.BigEndian.Uint32(v[1:5])
	}
	if len(v) >= 11 {
		t.HasNeighbor = true
		copy(t.NbrSys[:], v[5:11])
	}
	if len(v) == 15 {
		t.HasNbrCircID = true
		t.NbrCircuit = binary.BigEndian.Uint32(v[11:15])
	}
	return t, nil
}

func AreaTLV(areas ...[]byte) TLV {
	var v []byte
	for _, a := range areas {
		v = append(v, uint8(len(a)))
		v = append(v, a...)
	}
	return TLV{TLVArea, v}
}

func ParseAreas(v []byte) ([][]byte, error) {
	var out [][]byte
	for len(v) > 0 {
		n := int(v[0])
		if 1+n > len(v) {
			return nil, fmt.Errorf("area address overruns the TLV")
		}
		out = append(out, append([]byte{}, v[1:1+n]...))
		v = v[1+n:]
	}
	return out, nil
}

func ProtocolsTLV(nlpids ...uint8) TLV { return TLV{TLVProtocols, append([]byte{}, nlpids...)} }

func IPIfAddrTLV(addrs ...uint32) TLV {
	var v []byte
	for _, a := range addrs {
		v = binary.BigEndian.AppendUint32(v, a)
	}
	return TLV{TLVIPIfAddr, v}
}

func ParseIPv4List(v []byte) ([]uint32, error) {
	if len(v)%4 != 0 {
		return nil, fmt.Errorf("length %d is not a multiple of 4", len(v))
	}
	var out []uint32
	for i := 0; i < len(v); i += 4 {
		out = append(out, binary.BigEndian.Uint32(v[i:]))
	}
	return out, nil
}

func HostnameTLV(name string) TLV { return TLV{TLVHostname, []byte(name)} }

func PaddingTLV(n int) TLV { return TLV{TLVPadding, make([]byte, n)} }

// BuildHello serialises a point-to-point IIH (without LLC).
func BuildHello(h Hello) []byte {
	t := tlvBytes(h.TLVs)
	b := header(PDUP2PHello)
	b = append(b, h.CircuitType)
	b = append(b, h.Sys[:]...)
	b = binary.BigEndian.AppendUint16(b, h.Hold)
	b = binary.BigEndian.AppendUint16(b, uint16(20+len(t)))
	b = append(b, h.LocalCircuit)
	return append(b, t...)
}

// ---------------------------------------------------------------- LSP

type LSP struct {
	PDULen    uint16
	Lifetime  uint16
	ID        LSPID
	Seq       uint32
	Checksum  uint16
	TypeBlock uint8
	TLVs      []TLV
}

type SubTLV = TLV

type ExtISNbr struct {
	ID     [7]byte // system id + pseudonode
	Metric uint32  // 24 bit
	Sub    []SubTLV
}

func ExtISReachTLV(nbrs ...ExtISNbr) TLV {
	var v []byte
	for _, n := range nbrs {
		v = append(v, n.ID[:]...)
		v = append(v, uint8(n.Metric>>16), uint8(n.Metric>>8), uint8(n.Metric))
		s := tlvBytes(n.Sub)
		v = append(v, uint8(len(s)))
		v = append(v, s...)
	}
	return TLV{TLVExtISReach, v}
}

func ParseExtISReach(v []byte) ([]ExtISNbr, error) {
	var out []ExtISNbr
	for len(v) > 0 {
		if len(v) < 11 {
			return nil, fmt.Errorf("truncated extended IS reachability entry (%d octets left)", len(v))
		}
		var n ExtISNbr
		copy(n.ID[:], v[:7])
		n.Metric = uint32(v[7])<<16 | uint32(v[8])<<8 | uint32(v[9])
		sl := int(v[10])
		if 11+sl > len(v) {
			return nil, fmt.Errorf("sub-TLVs (%d octets) overrun the TLV", sl)
		}
		sub, err := splitTLVs(v[11 : 11+sl])
		if err != nil {
			return nil, fmt.Errorf("sub-TLVs: %w", err)
		}
		n.Sub = sub
		out = append(out, n)
		v = v[11+sl:]
	}
	return out, nil
}

type ExtIPPfx struct {
	Metric uint32
	Down   bool
	Len    uint8
	Addr   uint32 // left aligned, host bits as given
	Sub    []SubTLV
	HasSub bool
}

func ExtIPReachTLV(pfxs ...ExtIPPfx) TLV {
	var v []byte
	for _, p := range pfxs {
		v = binary.BigEndian.AppendUint32(v, p.Metric)
		c := p.Len & 0x3f
		if p.Down {
			c |= 0x80
		}
		if p.HasSub {
			c |= 0x40
		}
		v = append(v, c)
		var a [4]byte
		binary.BigEndian.PutUint32(a[:], p.Addr)
		v = append(v, a[:(int(p.Len)+7)/8]...)
		if p.HasSub {
			s := tlvBytes(p.Sub)
			v = append(v, uint8(len(s)))
			v = append(v, s...)
		}
	}
	return TLV{TLVExtIPReach, v}
}

func ParseExtIPReach(v []byte) ([]ExtIPPfx, error) {
	var out []ExtIPPfx
	for len(v) > 0 {
		if len(v) < 5 {
			return nil, fmt.Errorf("truncated extended IP reachability entry")
		}
		var p ExtIPPfx
		p.Metric = binary.BigEndian.Uint32(v)
		c := v[4]
		p.Down, p.HasSub, p.Len = c&0x80 != 0, c&0x40 != 0, c&0x3f
		if p.Len > 32 {
			return nil, fmt.Errorf("prefix length %d", p.Len)
		}
		n := (int(p.Len) + 7) / 8
		if 5+n > len(v) {
			return nil, fmt.Errorf("prefix octets overrun the TLV")
		}
		var a [4]byte
		copy(a[:], v[5:5+n])
		p.Addr = binary.BigEndian.Uint32(a[:])
		v = v[5+n:]
		if p.HasSub {
			if len(v) < 1 || 1+int(v[0]) > len(v) {
				return nil, fmt.Errorf("sub-TLVs overrun the TLV")
			}
			sub, err := splitTLVs(v[1 : 1+int(v[0])])
			if err != nil {
				return nil, err
			}
			p.Sub = sub
			v = v[1+int(v[0]):]
		}
		out = append(out, p)
	}
	return out, nil
}

// Fletcher computes the ISO 8473 checksum of an LSP. body is the PDU from the LSP ID field
// (PDU offset 12) to the end with the checksum field (body offset 12) zeroed.
func Fletcher(body []byte) uint16 {
	c0, c1 := 0, 0
	for i, b := range body {
		if i == 12 || i == 13 {
			b = 0
		}
		c0 = (c0 + int(b)) % 255
		c1 = (c1 + c0) % 255
	}
	x := ((len(body)-13)*c0 - c1) % 255
	if x <= 0 {
		x += 255
	}
	y := 510 - c0 - x
	if y > 255 {
		y -= 255
	}
	return uint16(x)<<8 | uint16(y)
}

// FletcherOK verifies the checksum of an LSP body (see Fletcher).
func FletcherOK(body []byte) bool {
	c0, c1 := 0, 0
	for _, b := range body {
		c0 = (c0 + int(b)) % 255
		c1 = (c1 + c0) % 255
	}
	return c0 == 0 && c1 == 0
}

// BuildLSP serialises a level 2 LSP (without LLC) with a correct length and checksum.
func BuildLSP(l LSP) []byte {
	t := tlvBytes(l.TLVs)
	b := header(PDUL2LSP)
	b = binary.BigEndian.AppendUint16(b, uint16(27+len(t)))
	b = binary.BigEndian.AppendUint16(b, l.Lifetime)
	b = append(b, l.ID[:]...)
	b = binary.BigEndian.AppendUint32(b, l.Seq)
	b = append(b, 0, 0, l.TypeBlock)
	b = append(b, t...)
	binary.BigEndian.PutUint16(b[24:], Fletcher(b[12:]))
	return b
}

// ---------------------------------------------------------------- SNPs

type SNPEntry struct {
	Lifetime uint16
	ID       LSPID
	Seq      uint32
	Checksum uint16
}

// LSPEntriesTLVs packs entries into as many LSP Entries TLVs as needed (15 entries each).
func LSPEntriesTLVs(es []SNPEntry) []TLV {
	var out []TLV
	for len(es) > 0 {
		n := len(es)
		if n > 15 {
			n = 15
		}
		var v []byte
		for _, e := range es[:n] {
			v = binary.BigEndian.AppendUint16(v, e.Lifetime)
			v = append(v, e.ID[:]...)
			v = binary.BigEndian.AppendUint32(v, e.Seq)
			v = binary.BigEndian.AppendUint16(v, e.Checksum)
		}
		out = append(out, TLV{TLVLSPEntries, v})
		es = es[n:]
	}
	return out
}

// Entries collects the LSP entries of all LSP Entries TLVs.
func Entries(tlvs []TLV) ([]SNPEntry, error) {
	var out []SNPEntry
	for _, t := range tlvs {
		if t.T != TLVLSPEntries {
			continue
		}
		if len(t.V)%16 != 0 {
			return nil, fmt.Errorf("LSP entries TLV of length %d", len(t.V))
		}
		for i := 0; i < len(t.V); i += 16 {
			var e SNPEntry
			e.Lifetime = binary.BigEndian.Uint16(t.V[i:])
			copy(e.ID[:], t.V[i+2:i+10])
			e.Seq = binary.BigEndian.Uint32(t.V[i+10:])
			e.Checksum = binary.BigEndian.Uint16(t.V[i+14:])
			out = append(out, e)
		}
	}
	return out, nil
}

type CSNP struct {
	PDULen uint16
	Source [7]byte
	Start  LSPID
	End    LSPID
	TLVs   []TLV
}

type PSNP struct {
	PDULen uint16
	Source [7]byte
	TLVs   []TLV
}

func SourceID(s SysID) [7]byte { var x [7]byte; copy(x[:], s[:]); return x }

func BuildCSNP(c CSNP) []byte {
	t := tlvBytes(c.TLVs)
	b := header(PDUL2CSNP)
	b = binary.BigEndian.AppendUint16(b, uint16(33+len(t)))
	b = append(b, c.Source[:]...)
	b = append(b, c.Start[:]...)
	b = append(b, c.End[:]...)
	return append(b, t...)
}

func BuildPSNP(p PSNP) []byte {
	t := tlvBytes(p.TLVs)
	b := header(PDUL2PSNP)
	b = binary.BigEndian.AppendUint16(b, uint16(17+len(t)))
	b = append(b, p.Source[:]...)
	return append(b, t...)
}

// ---------------------------------------------------------------- strict parser

type PDU struct {
	Type  uint8
	Hello *Hello
	LSP   *LSP
	CSNP  *CSNP
	PSNP  *PSNP
}

func (p *PDU) TLVs() []TLV {
	switch {
	case p.Hello != nil:
		return p.Hello.TLVs
	case p.LSP != nil:
		return p.LSP.TLVs
	case p.CSNP != nil:
		return p.CSNP.TLVs
	case p.PSNP != nil:
		return p.PSNP.TLVs
	}
	return nil
}

func splitTLVs(b []byte) ([]TLV, error) {
	var out []TLV
	for len(b) > 0 {
		if len(b) < 2 {
			return nil, fmt.Errorf("one stray octet after the last TLV")
		}
		n := int(b[1])
		if 2+n > len(b) {
			return nil, fmt.Errorf("TLV %d claims %d octets, %d left", b[0], n, len(b)-2)
		}
		out = append(out, TLV{b[0], append([]byte{}, b[2:2+n]...)})
		b = b[2+n:]
	}
	return out, nil
}

// Parse strictly parses a PDU as put on the wire by an IS (no LLC): header constants, the PDU
// length field must equal the number of octets, and the TLVs must tile the variable part
// exactly. Only the PDU types bio-rd speaks are accepted.
func Parse(b []byte) (*PDU, error) {
	if len(b) < 8 {
		return nil, fmt.Errorf("short header (%d octets)", len(b))
	}
	if b[0] != 0x83 {
		return nil, fmt.Errorf("protocol discriminator %#x", b[0])
	}
	typ := b[4] & 0x1f
	fl, ok := fixedLen[typ]
	if !ok {
		return nil, fmt.Errorf("PDU type %#x", b[4])
	}
	if int(b[1]) != fl {
		return nil, fmt.Errorf("length indicator %d, want %d for PDU type %#x", b[1], fl, typ)
	}
	if b[2] != 1 || b[5] != 1 {
		return nil, fmt.Errorf("version fields %d/%d", b[2], b[5])
	}
	if b[3] != 0 && b[3] != 6 {
		return nil, fmt.Errorf("ID length %d", b[3])
	}
	if len(b) < fl {
		return nil, fmt.Errorf("PDU shorter (%d) than its fixed header (%d)", len(b), fl)
	}
	p := &PDU{Type: typ}
	var plen uint16
	var tl []byte
	switch typ {
	case PDUP2PHello:
		h := &Hello{CircuitType: b[8]}
		copy(h.Sys[:], b[9:15])
		h.Hold = binary.BigEndian.Uint16(b[15:])
		h.PDULen = binary.BigEndian.Uint16(b[17:])
		h.LocalCircuit = b[19]
		plen, tl, p.Hello = h.PDULen, b[20:], h
	case PDUL2LSP:
		l := &LSP{}
		l.PDULen = binary.BigEndian.Uint16(b[8:])
		l.Lifetime = binary.BigEndian.Uint16(b[10:])
		copy(l.ID[:], b[12:20])
		l.Seq = binary.BigEndian.Uint32(b[20:])
		l.Checksum = binary.BigEndian.Uint16(b[24:])
		l.TypeBlock = b[26]
		plen, tl, p.LSP = l.PDULen, b[27:], l
	case PDUL2CSNP:
		c := &CSNP{}
		c.PDULen = binary.BigEndian.Uint16(b[8:])
		copy(c.Source[:], b[10:17])
		copy(c.Start[:], b[17:25])
		copy(c.End[:], b[25:33])
		plen, tl, p.CSNP = c.PDULen, b[33:], c
	case PDUL2PSNP:
		s := &PSNP{}
		s.PDULen = binary.BigEndian.Uint16(b[8:])
		copy(s.Source[:], b[10:17])
		plen, tl, p.PSNP = s.PDULen, b[17:], s
	default:
		return nil, fmt.Errorf("PDU type %#x is not one bio-rd speaks", typ)
	}
	if int(plen) != len(b) {
		return nil, fmt.Errorf("PDU length field %d, %d octets on the wire", plen, len(b))
	}
	tlvs, err := splitTLVs(tl)
	if err != nil {
		return nil, err
	}
	switch {
	case p.Hello != nil:
		p.Hello.TLVs = tlvs
	case p.LSP != nil:
		p.LSP.TLVs = tlvs
	case p.CSNP != nil:
		p.CSNP.TLVs = tlvs
	case p.PSNP != nil:
		p.PSNP.TLVs = tlvs
	}
	// the contents of the TLV types this codec knows must be well-formed too
	for _, t := range tlvs {
		var e error
		switch t.T {
		case TLVThreeWay:
			_, e = ParseThreeWay(t.V)
		case TLVArea:
			_, e = ParseAreas(t.V)
		case TLVIPIfAddr:
			_, e = ParseIPv4List(t.V)
		case TLVExtISReach:
			_, e = ParseExtISReach(t.V)
		case TLVExtIPReach:
			_, e = ParseExtIPReach(t.V)
		case TLVLSPEntries:
			_, e = Entries([]TLV{t})
		case TLVTERouterID:
			if len(t.V) != 4 {
				e = fmt.Errorf("length %d", len(t.V))
			}
		}
		if e != nil {
			return nil, fmt.Errorf("TLV %d: %w", t.T, e)
		}
	}
	return p, nil
}

// Find returns the first TLV of type t.
func Find(tlvs []TLV, t uint8) (TLV, bool) {
	for _, x := range tlvs {
		if x.T == t {
			return x, true
		}
	}
	return TLV{}, false
}
