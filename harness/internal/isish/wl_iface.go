package isish

import (
	"encoding/json"
	"fmt"
	"strings"
	"time"
)

// Interface state change workload (C33).

type IfaceCase struct {
	Passive bool   `json:"passive"`
	Seq     []bool `json:"seq"` // true = link up, false = link down
	Adv     int    `json:"adv"` // mock seconds advanced after every event
	// Ghost adds a second configured interface that never receives a device event
	Ghost bool `json:"ghost,omitempty"`
}

func (c IfaceCase) String() string {
	var b strings.Builder
	for _, u := range c.Seq {
		if u {
			b.WriteByte('U')
		} else {
			b.WriteByte('D')
		}
	}
	k := "active"
	if c.Passive {
		k = "passive"
	}
	g := ""
	if c.Ghost {
		g = "+ghost"
	}
	return fmt.Sprintf("%s/%s/adv%d%s", k, b.String(), c.Adv, g)
}

var (
	dutSys  = SysID{0x0c, 0x0c, 0x0c, 0x0d, 0x0d, 0x0d}
	dutArea = []byte{0x49, 0x00, 0x01}
	nbrASys = SysID{0xde, 0xad, 0xbe, 0xef, 0xff, 0x01}
	nbrBSys = SysID{0xde, 0xad, 0xbe, 0xef, 0xff, 0x02}
	nbrAMAC = [6]byte{0xde, 0xad, 0xbe, 0xef, 0x12, 0x34}
	nbrBMAC = [6]byte{0xde, 0xad, 0xbe, 0xef, 0x12, 0x35}
	othSys  = SysID{0x01, 0x02, 0x03, 0x04, 0x05, 0x06}
)

// NbrHello builds a valid hello of a neighbor on the interface's /31.
func NbrHello(sys SysID, ifNet uint32, hold uint16, tw *ThreeWay, extra ...TLV) []byte {
	h := Hello{CircuitType: 2, Sys: sys, Hold: hold, LocalCircuit: 1}
	if tw != nil {
		h.TLVs = append(h.TLVs, tw.TLV())
	}
	h.TLVs = append(h.TLVs, ProtocolsTLV(0xcc, 0x8e), IPIfAddrTLV(ifNet|1), AreaTLV(dutArea))
	h.TLVs = append(h.TLVs, extra...)
	return BuildHello(h)
}

func bstr(b bool) string {
	if b {
		return "true"
	}
	return "false"
}

// RunIface executes one interface scenario. emit (may be nil) receives every frame the server sent.
func RunIface(c IfaceCase, out *Outcome, emit func(Sent)) {
	const helloIv = 3
	cfg := Cfg{Sys: dutSys, Area: dutArea, MockServer: true,
		Ifaces: []IfCfg{{Name: "eth0", Passive: c.Passive, Hello: helloIv, Hold: 9, Metric: 10, Net: 0xa9fe6400}}}
	if c.Ghost {
		cfg.Ifaces = append(cfg.Ifaces, IfCfg{Name: "eth9", Hello: helloIv, Hold: 9, Metric: 10, Net: 0xa9fe6500})
	}
	clause := func(s string) string {
		if c.Ghost {
			return "iface-without-device:" + s
		}
		return s
	}
	feat := func(kv ...string) map[string]string {
		m := map[string]string{"passive": bstr(c.Passive)}
		for i := 0; i+1 < len(kv); i += 2 {
			m[kv[i]] = kv[i+1]
		}
		return m
	}
	var h *H
	var err error
	if pi, txt := Guard(func() { h, err = New(cfg) }); pi != nil {
		out.Violate(clause("panic"), feat("event", "setup", "panic", pi.Msg, "at", pi.At), "panic while building the server: %s", txt)
		return
	}
	if err != nil {
		out.Inconclusive = "server construction failed: " + err.Error()
		return
	}
	h.AllSent = emit
	out.Count("scenarios", 1)
	unsettled := func() {
		if h.Unsettled > 0 && out.Inconclusive == "" {
			out.Inconclusive = "state did not become stable within the real-time cap"
		}
	}
	defer unsettled()
	read := func() string {
		h.mu.Lock()
		n := h.nseq
		h.mu.Unlock()
		seq, _, _, _ := h.OwnLSP()
		return fmt.Sprintf("%s|%d|%d", AdjKey(h.Adjs()), n, seq)
	}
	// leave nothing behind that could fire while the next scenario runs in this process
	defer func() { h.Settle(read) }()
	step := func(n int) {
		for i := 0; i < n; i++ {
			h.Advance(time.Second)
			h.Settle(read)
		}
	}
	everDown, transitions := false, 0
	for i, up := range c.Seq {
		ev := "down"
		if up {
			ev = "up"
		}
		if i > 0 && c.Seq[i-1] != up {
			transitions++
		}
		if pi, txt := Guard(func() { h.Event("eth0", up) }); pi != nil {
			out.Violate(clause("panic"), feat("event", ev, "panic", pi.Msg, "at", pi.At), "scenario %s: device event #%d (link %s) panicked: %s", c, i+1, ev, txt)
			out.Count("panics_recovered", 1)
			return
		}
		out.Count("events", 1)
		if !up && i > 0 {
			everDown = true
		}
		// the event may have queued work for a goroutine (LSP regeneration): let it happen now, so
		// that a crash there is attributed to this event
		h.Settle(read)
		step(c.Adv)
		if pi, txt := Guard(func() { h.Adjs(); h.S.GetLSDB(); h.S.GetInterfaceNames() }); pi != nil {
			out.Violate(clause("panic"), feat("event", "api-after-"+ev, "panic", pi.Msg, "at", pi.At), "scenario %s: GetAdjacencies/GetLSDB after event #%d panicked: %s", c, i+1, txt)
			return
		}
		out.Count("api_reads", 2)
	}
	out.Evals = len(c.Seq)
	if transitions > 0 {
		out.Nontrivial = append(out.Nontrivial, c.String())
	}
	last := c.Seq[len(c.Seq)-1]
	if !last || c.Passive {
		return
	}
	// the link is up on an active interface: hellos must flow and an adjacency must be able to form
	reup := "false"
	if everDown || transitions > 1 {
		reup = "true"
	}
	out.Count("final_up_active", 1)
	cur, all := h.Eth("eth0")
	h.Take()
	step(2 * helloIv)
	hellos := 0
	var bad string
	for _, s := range h.Take() {
		if s.Iface != "eth0" || cur == nil || s.Gen != cur.gen {
			continue
		}
		if len(s.Raw) > 4 && s.Raw[4] == PDUP2PHello {
			p, perr := Parse(s.Raw)
			if perr != nil {
				bad = perr.Error()
				continue
			}
			if p.Hello.Sys == dutSys {
				hellos++
			}
		}
	}
	out.Count("hello_checks", 1)
	countHellos := func() {
		for _, s := range h.Take() {
			if s.Iface == "eth0" && cur != nil && s.Gen == cur.gen && len(s.Raw) > 4 && s.Raw[4] == PDUP2PHello {
				if p, perr := Parse(s.Raw); perr == nil && p.Hello.Sys == dutSys {
					hellos++
				}
			}
		}
	}
	if hellos == 0 && cur != nil && !cur.Closed() {
		// negative decisions get a real-time grace period: the ticks were delivered, a live sender
		// goroutine only needs to be scheduled
		for i := 0; i < 500 && hellos == 0; i++ {
			time.Sleep(time.Millisecond)
			countHellos()
		}
		if hellos > 0 {
			out.Count("late_hellos", 1)
		}
	}
	if hellos == 0 {
		why := fmt.Sprintf("%d ethernet handle(s) were created for eth0, the server holds #%d", len(all), genOf(cur))
		if cur != nil && cur.Closed() {
			why += " which is closed"
		}
		if bad != "" {
			why += "; a hello was sent but is malformed: " + bad
		}
		out.Violate(clause("no-hello-after-up"), feat("reup", reup), "scenario %s: link is up but no hello was sent on the current ethernet handle during %d s (2 hello intervals) of mock time; %s", c, 2*helloIv, why)
	}
	if cur == nil {
		out.Violate(clause("no-adjacency-after-up"), feat("reup", reup, "rx", "no-handle"), "scenario %s: the server holds no ethernet handle for eth0 after link up", c)
		return
	}
	out.Count("adjacency_checks", 1)
	if cur.Closed() {
		out.Violate(clause("no-adjacency-after-up"), feat("reup", reup, "rx", "handle-closed"), "scenario %s: link is up but the ethernet handle the server holds for eth0 (#%d of %d) is closed: nothing can be received, no adjacency can form", c, cur.gen, len(all))
		return
	}
	// a neighbor speaks on the wire (the real receive path, not the synchronous hook)
	circ := h.CircuitID("eth0")
	msgs := [][]byte{
		NbrHello(nbrASys, 0xa9fe6400, 30, &ThreeWay{State: AdjDown, HasExt: true, ExtCircuit: 7}),
		NbrHello(nbrASys, 0xa9fe6400, 30, &ThreeWay{State: AdjInit, HasExt: true, ExtCircuit: 7, HasNeighbor: true, NbrSys: dutSys, HasNbrCircID: true, NbrCircuit: circ}),
		NbrHello(nbrASys, 0xa9fe6400, 30, &ThreeWay{State: AdjUp, HasExt: true, ExtCircuit: 7, HasNeighbor: true, NbrSys: dutSys, HasNbrCircID: true, NbrCircuit: circ}),
	}
	in0, out0 := cur.Rx()
	consumed := 0
	for k, m := range msgs {
		cur.SendFromRemote(nbrAMAC, WithLLC(m))
		// the receiver goroutine reads the next frame only after it processed the previous one:
		// "frame k delivered and RecvPacket entered again" proves frame k was fully processed
		deadline := time.Now().Add(5 * time.Second)
		ok := false
		for time.Now().Before(deadline) {
			in, o := cur.Rx()
			if o-out0 >= k+1 && in-o >= 1 {
				ok = true
				break
			}
			time.Sleep(200 * time.Microsecond)
		}
		if !ok {
			break
		}
		consumed++
	}
	in1, out1 := cur.Rx()
	st := "absent"
	for _, a := range h.Adjs() {
		if a.MAC == nbrAMAC {
			st = StateName(a.State)
		}
	}
	if st != "up" {
		rx := "consumed"
		if consumed < len(msgs) {
			rx = "not-consumed"
		}
		out.Violate(clause("no-adjacency-after-up"), feat("reup", reup, "rx", rx),
			"scenario %s: link is up; a neighbor sent valid hellos (down, init naming us, up naming us) on the current ethernet handle; %d of 3 were processed; adjacency is %s, want up. Receive path: RecvPacket entered %d→%d times, delivered %d→%d frames", c, consumed, st, in0, in1, out0, out1)
	} else {
		out.Count("adjacency_formed", 1)
	}
}

func genOf(e *Eth) int {
	if e == nil {
		return 0
	}
	return e.gen
}

// IfaceCases enumerates every up/down sequence of length 1..maxLen × {active, passive} × advances.
func IfaceCases(maxLen int, advs []int) []IfaceCase {
	var out []IfaceCase
	for _, passive := range []bool{false, true} {
		for _, adv := range advs {
			for l := 1; l <= maxLen; l++ {
				for m := 0; m < 1<<l; m++ {
					c := IfaceCase{Passive: passive, Adv: adv}
					for i := 0; i < l; i++ {
						c.Seq = append(c.Seq, m>>(l-1-i)&1 == 1)
					}
					out = append(out, c)
				}
			}
		}
	}
	return out
}

func MustJSON(v any) json.RawMessage {
	b, err := json.Marshal(v)
	if err != nil {
		panic(err)
	}
	return b
}
