package isish

import (
	"encoding/json"
	"fmt"
	"math/rand/v2"
	"runtime"
	"sort"
	"strings"
	"time"

	"github.com/bio-routing/bio-rd/protocols/device"
)

// Interface state change workload (C33).

type IfaceCase struct {
	Passive bool   `json:"passive"`
	Seq     []bool `json:"seq"` // true = link up, false = link down
	Adv     int    `json:"adv"` // mock seconds advanced after every event
	// Ghost adds a second configured interface that never receives a device event
	Ghost bool `json:"ghost,omitempty"`
	// States, when set, is the operational state (RFC 2863 ifOperStatus as protocols/device reports it)
	// each device event carries; Seq is derived from it (only IfOperUp is "link up", every other state is
	// a link that cannot be used). The events are delivered through a device.Updater of the harness,
	// because device.MockServer can only say up and down.
	States []int `json:"states,omitempty"`
	// Inflight, when set, runs rounds of (link up, PDUs delivered to the socket, link loss without
	// waiting for the receiver) in front of Seq: device events that race with PDUs being processed.
	Inflight *Inflight `json:"inflight,omitempty"`
	// Faults injects transient transmission failures into the ethernet handles of eth0 (Gen 0 = every
	// handle): the socket stays open, single sends fail. Hellos have to go on afterwards.
	Faults []SendFault `json:"faults,omitempty"`
}

// Inflight describes the racing part of a scenario.
type Inflight struct {
	Rounds int      `json:"rounds"`
	Frames []string `json:"frames"` // PDUs a neighbor sends after every link up: hello-down, hello-init, hello-up, lsp, csnp, psnp
	Yields []int    `json:"yields"` // scheduler yields between the last PDU and the link loss event, -1 = spin until the receiver has taken the first PDU (round i uses Yields[i % len])
	Loss   []int    `json:"loss"`   // operational states reporting the link loss (round i uses Loss[i % len])
}

var operNames = map[uint8]string{
	device.IfOperUnknown: "unknown", device.IfOperNotPresent: "notPresent", device.IfOperDown: "down",
	device.IfOperLowerLayerDown: "lowerLayerDown", device.IfOperTesting: "testing", device.IfOperDormant: "dormant", device.IfOperUp: "up",
}

// OperName names an operational state.
func OperName(st int) string {
	if n, ok := operNames[uint8(st)]; ok && st >= 0 && st < 256 {
		return n
	}
	return fmt.Sprintf("oper%d", st)
}

// eventWatchdog bounds one device event in a racing scenario (they return within microseconds).
const eventWatchdog = 10 * time.Second

func (c IfaceCase) String() string {
	var b strings.Builder
	if c.Inflight != nil {
		fmt.Fprintf(&b, "%dx(U,%s,", c.Inflight.Rounds, strings.Join(c.Inflight.Frames, "+"))
		for _, st := range c.Inflight.Loss {
			b.WriteString(OperName(st) + "|")
		}
		b.WriteString(")")
	}
	for _, u := range c.Seq {
		if len(c.States) > 0 {
			break
		}
		if u {
			b.WriteByte('U')
		} else {
			b.WriteByte('D')
		}
	}
	for _, st := range c.States {
		b.WriteByte("KNDLTMU?"[max(0, min(st, 7))]) // unKnown Notpresent Down Lowerlayerdown Testing dorMant Up
	}
	k := "active"
	if c.Passive {
		k = "passive"
	}
	g := ""
	if c.Ghost {
		g = "+ghost"
	}
	for _, f := range c.Faults {
		g += fmt.Sprintf("+txfail(h%d:%d..%d)", f.Gen, f.From, f.From+f.Count-1)
	}
	return fmt.Sprintf("%s/%s/adv%d%s", k, b.String(), c.Adv, g)
}

var (
	dutSys  = SysID{0x0c, 0x0c, 0x0c, 0x0d, 0x0d, 0x0d}
	dutArea = []byte{0x49, 0x00, 0x01}
	nbrASys = SysID{0xde, 0xad, 0xbe, 0xef, 0xff, 0x01}
	nbrBSys = SysID{0xde, 0xad, 0xbe, 0xef, 0xff, 0x02}
	nbrAMAC = [6]byte{0xde, 0xad, 0xbe, 0xef, 0x12, 0x34}
	nbrBMAC = [6]byte{0xde, 0xad, 0xbe, 0xef, 0x12, 0x35}
	othSys  = SysID{0x01, 0x02, 0x03, 0x04, 0x05, 0x06}
)

// NbrHello builds a valid hello of a neighbor on the interface's /31.
func NbrHello(sys SysID, ifNet uint32, hold uint16, tw *ThreeWay, extra ...TLV) []byte {
	h := Hello{CircuitType: 2, Sys: sys, Hold: hold, LocalCircuit: 1}
	if tw != nil {
		h.TLVs = append(h.TLVs, tw.TLV())
	}
	h.TLVs = append(h.TLVs, ProtocolsTLV(0xcc, 0x8e), IPIfAddrTLV(ifNet|1), AreaTLV(dutArea))
	h.TLVs = append(h.TLVs, extra...)
	return BuildHello(h)
}

// NbrHelloLevel is NbrHello with a chosen circuit type (2 = level 2 only, 3 = level 1 and 2) and area.
func NbrHelloLevel(sys SysID, ifNet uint32, hold uint16, tw *ThreeWay, circuitType uint8, area []byte) []byte {
	h := Hello{CircuitType: circuitType, Sys: sys, Hold: hold, LocalCircuit: 1}
	if tw != nil {
		h.TLVs = append(h.TLVs, tw.TLV())
	}
	h.TLVs = append(h.TLVs, ProtocolsTLV(0xcc, 0x8e), IPIfAddrTLV(ifNet|1), AreaTLV(area))
	return BuildHello(h)
}

func bstr(b bool) string {
	if b {
		return "true"
	}
	return "false"
}

// RunIface executes one interface scenario. emit (may be nil) receives every frame the server sent.
func RunIface(c IfaceCase, out *Outcome, emit func(Sent)) {
	const helloIv = 3
	cfg := Cfg{Sys: dutSys, Area: dutArea, MockServer: true,
		Ifaces: []IfCfg{{Name: "eth0", Passive: c.Passive, Hello: helloIv, Hold: 9, Metric: 10, Net: 0xa9fe6400}}}
	if len(c.States) > 0 || c.Inflight != nil {
		cfg.MockServer = false
		cfg.Ifaces[0].Index = 3
	}
	if len(c.States) > 0 {
		c.Seq = make([]bool, len(c.States))
		for i, st := range c.States {
			c.Seq[i] = st == device.IfOperUp
		}
	} else if c.Inflight != nil && len(c.Seq) == 0 {
		c.Seq = []bool{true}
	}
	if len(c.Seq) == 0 {
		out.Inconclusive = "bad case: no events"
		return
	}
	// deliver hands event i of the sequence to the server
	deliver := func(h *H, i int) {
		if len(c.States) > 0 {
			h.EventState("eth0", uint8(c.States[i]))
		} else {
			h.Event("eth0", c.Seq[i])
		}
	}
	if c.Ghost {
		cfg.Ifaces = append(cfg.Ifaces, IfCfg{Name: "eth9", Hello: helloIv, Hold: 9, Metric: 10, Net: 0xa9fe6500})
	}
	clause := func(s string) string {
		if c.Ghost {
			return "iface-without-device:" + s
		}
		return s
	}
	feat := func(kv ...string) map[string]string {
		m := map[string]string{"passive": bstr(c.Passive)}
		for i := 0; i+1 < len(kv); i += 2 {
			m[kv[i]] = kv[i+1]
		}
		return m
	}
	var h *H
	var err error
	if pi, txt := Guard(func() { h, err = New(cfg) }); pi != nil {
		out.Violate(clause("panic"), feat("event", "setup", "panic", pi.Msg, "at", pi.At), "panic while building the server: %s", txt)
		return
	}
	if err != nil {
		out.Inconclusive = "server construction failed: " + err.Error()
		return
	}
	h.AllSent = emit
	out.Count("scenarios", 1)
	if len(c.Faults) > 0 {
		var fs []SendFault
		for _, f := range c.Faults {
			if f.Gen == 0 {
				// every handle the factory may create in this scenario
				for g := 1; g <= len(c.Seq)+1; g++ {
					fs = append(fs, SendFault{Gen: g, From: f.From, Count: f.Count})
				}
			} else {
				fs = append(fs, f)
			}
		}
		h.SendFaults = map[string][]SendFault{"eth0": fs}
		out.Count("scenarios_with_send_faults", 1)
		defer func() {
			_, all := h.Eth("eth0")
			for _, e := range all {
				n, _ := e.TxFaults()
				out.Count("transient_send_errors_injected", n)
			}
		}()
	}
	poisoned := false // a device event never returned: the server must not be touched any more
	unsettled := func() {
		if h.Unsettled > 0 && out.Inconclusive == "" && !poisoned {
			out.Inconclusive = "state did not become stable within the real-time cap"
		}
	}
	defer unsettled()
	read := func() string {
		h.mu.Lock()
		n := h.nseq
		h.mu.Unlock()
		seq, _, _, _ := h.OwnLSP()
		return fmt.Sprintf("%s|%d|%d", AdjKey(h.Adjs()), n, seq)
	}
	// leave nothing behind that could fire while the next scenario runs in this process
	defer func() {
		if !poisoned {
			h.Settle(read)
		}
	}()
	step := func(n int) {
		for i := 0; i < n; i++ {
			h.Advance(time.Second)
			h.Settle(read)
		}
	}
	everDown, transitions := false, 0
	loss := "none" // how the most recent link loss was reported
	if c.Inflight != nil {
		if !runInflight(c, h, out, clause, feat, read) {
			poisoned = out.Poisoned
			return
		}
		everDown = true
		loss = "raced"
	}
	for i, up := range c.Seq {
		ev := "down"
		if up {
			ev = "up"
		}
		if len(c.States) > 0 {
			ev = OperName(c.States[i])
			if !up {
				loss = ev
			}
		}
		if i > 0 && c.Seq[i-1] != up {
			transitions++
		}
		if pi, txt := Guard(func() { deliver(h, i) }); pi != nil {
			out.Violate(clause("panic"), feat("event", ev, "panic", pi.Msg, "at", pi.At), "scenario %s: device event #%d (link %s) panicked: %s", c, i+1, ev, txt)
			out.Count("panics_recovered", 1)
			return
		}
		out.Count("events", 1)
		if len(c.States) > 0 {
			out.Count("events_oper_"+ev, 1)
		}
		if !up && i > 0 {
			everDown = true
		}
		// the event may have queued work for a goroutine (LSP regeneration): let it happen now, so
		// that a crash there is attributed to this event
		h.Settle(read)
		step(c.Adv)
		if pi, txt := Guard(func() { h.Adjs(); h.S.GetLSDB(); h.S.GetInterfaceNames() }); pi != nil {
			out.Violate(clause("panic"), feat("event", "api-after-"+ev, "panic", pi.Msg, "at", pi.At), "scenario %s: GetAdjacencies/GetLSDB after event #%d panicked: %s", c, i+1, txt)
			return
		}
		out.Count("api_reads", 2)
	}
	out.Evals = len(c.Seq)
	if transitions > 0 {
		out.Nontrivial = append(out.Nontrivial, c.String())
	}
	last := c.Seq[len(c.Seq)-1]
	if !last || c.Passive {
		return
	}
	// the link is up on an active interface: hellos must flow and an adjacency must be able to form
	reup := "false"
	if everDown || transitions > 1 {
		reup = "true"
	}
	out.Count("final_up_active", 1)
	if len(c.States) > 0 || c.Inflight != nil {
		// how the link loss before the final link up was reported is what distinguishes these scenarios
		plain := feat
		feat = func(kv ...string) map[string]string { return plain(append(kv, "loss", loss)...) }
		out.Count("final_up_after_loss_"+loss, 1)
	}
	cur, all := h.Eth("eth0")
	faulted := false
	if cur != nil && len(c.Faults) > 0 {
		// transient means finite: a running hello sender attempts one transmission per hello interval, so
		// after one interval per transmission up to the last pending failure every injected failure has
		// happened; the hellos of the following two intervals are the ones judged
		for n := cur.TxFaultHorizon(); n > 0 && cur.TxFaultHorizon() > 0; n-- {
			step(helloIv)
		}
		failed, left := cur.TxFaults()
		faulted = failed > 0
		if faulted {
			out.Count("final_up_after_transient_send_error", 1)
		}
		if left == 0 && faulted {
			out.Count("final_up_send_errors_all_consumed", 1)
		}
	}
	h.Take()
	step(2 * helloIv)
	hellos := 0
	var bad string
	for _, s := range h.Take() {
		if s.Iface != "eth0" || cur == nil || s.Gen != cur.gen {
			continue
		}
		if len(s.Raw) > 4 && s.Raw[4] == PDUP2PHello {
			p, perr := Parse(s.Raw)
			if perr != nil {
				bad = perr.Error()
				continue
			}
			if p.Hello.Sys == dutSys {
				hellos++
			}
		}
	}
	out.Count("hello_checks", 1)
	countHellos := func() {
		for _, s := range h.Take() {
			if s.Iface == "eth0" && cur != nil && s.Gen == cur.gen && len(s.Raw) > 4 && s.Raw[4] == PDUP2PHello {
				if p, perr := Parse(s.Raw); perr == nil && p.Hello.Sys == dutSys {
					hellos++
				}
			}
		}
	}
	if hellos == 0 && cur != nil && !cur.Closed() {
		// negative decisions get a real-time grace period: the ticks were delivered, a live sender
		// goroutine only needs to be scheduled
		for i := 0; i < 500 && hellos == 0; i++ {
			time.Sleep(time.Millisecond)
			countHellos()
		}
		if hellos > 0 {
			out.Count("late_hellos", 1)
		}
	}
	if hellos == 0 {
		why := fmt.Sprintf("%d ethernet handle(s) were created for eth0, the server holds #%d", len(all), genOf(cur))
		if cur != nil && cur.Closed() {
			why += " which is closed"
		}
		if bad != "" {
			why += "; a hello was sent but is malformed: " + bad
		}
		if faulted {
			failed, left := cur.TxFaults()
			out.Violate(clause("no-hello-after-transient-send-error"), feat("reup", reup), "scenario %s: link is up and the socket is open; %d transmission(s) on the current ethernet handle failed transiently (%d injected failure(s) never attempted), afterwards no hello was sent during %d s (2 hello intervals) of mock time: the hello sender gave up although the interface is running; %s", c, failed, left, 2*helloIv, why)
		} else {
			out.Violate(clause("no-hello-after-up"), feat("reup", reup), "scenario %s: link is up but no hello was sent on the current ethernet handle during %d s (2 hello intervals) of mock time; %s", c, 2*helloIv, why)
		}
	}
	if cur == nil {
		out.Violate(clause("no-adjacency-after-up"), feat("reup", reup, "rx", "no-handle"), "scenario %s: the server holds no ethernet handle for eth0 after link up", c)
		return
	}
	out.Count("adjacency_checks", 1)
	if cur.Closed() {
		out.Violate(clause("no-adjacency-after-up"), feat("reup", reup, "rx", "handle-closed"), "scenario %s: link is up but the ethernet handle the server holds for eth0 (#%d of %d) is closed: nothing can be received, no adjacency can form", c, cur.gen, len(all))
		return
	}
	// a neighbor speaks on the wire (the real receive path, not the synchronous hook)
	circ := h.CircuitID("eth0")
	msgs := [][]byte{
		NbrHello(nbrASys, 0xa9fe6400, 30, &ThreeWay{State: AdjDown, HasExt: true, ExtCircuit: 7}),
		NbrHello(nbrASys, 0xa9fe6400, 30, &ThreeWay{State: AdjInit, HasExt: true, ExtCircuit: 7, HasNeighbor: true, NbrSys: dutSys, HasNbrCircID: true, NbrCircuit: circ}),
		NbrHello(nbrASys, 0xa9fe6400, 30, &ThreeWay{State: AdjUp, HasExt: true, ExtCircuit: 7, HasNeighbor: true, NbrSys: dutSys, HasNbrCircID: true, NbrCircuit: circ}),
	}
	in0, out0 := cur.Rx()
	consumed := 0
	for k, m := range msgs {
		cur.SendFromRemote(nbrAMAC, WithLLC(m))
		// the receiver goroutine reads the next frame only after it processed the previous one:
		// "frame k delivered and RecvPacket entered again" proves frame k was fully processed
		deadline := time.Now().Add(5 * time.Second)
		ok := false
		for time.Now().Before(deadline) {
			in, o := cur.Rx()
			if o-out0 >= k+1 && in-o >= 1 {
				ok = true
				break
			}
			time.Sleep(200 * time.Microsecond)
		}
		if !ok {
			break
		}
		consumed++
	}
	in1, out1 := cur.Rx()
	st := "absent"
	for _, a := range h.Adjs() {
		if a.MAC == nbrAMAC {
			st = StateName(a.State)
		}
	}
	if st != "up" {
		rx := "consumed"
		if consumed < len(msgs) {
			rx = "not-consumed"
		}
		out.Violate(clause("no-adjacency-after-up"), feat("reup", reup, "rx", rx),
			"scenario %s: link is up; a neighbor sent valid hellos (down, init naming us, up naming us) on the current ethernet handle; %d of 3 were processed; adjacency is %s, want up. Receive path: RecvPacket entered %d→%d times, delivered %d→%d frames", c, consumed, st, in0, in1, out0, out1)
	} else {
		out.Count("adjacency_formed", 1)
	}
}

// inflightFrame builds one PDU of the neighbor on eth0.
func inflightFrame(kind string, circ uint32, round int) []byte {
	named := ThreeWay{State: AdjInit, HasExt: true, ExtCircuit: 7, HasNeighbor: true, NbrSys: dutSys, HasNbrCircID: true, NbrCircuit: circ}
	switch kind {
	case "hello-down":
		return NbrHello(nbrASys, 0xa9fe6400, 30, &ThreeWay{State: AdjDown, HasExt: true, ExtCircuit: 7})
	case "hello-init":
		return NbrHello(nbrASys, 0xa9fe6400, 30, &named)
	case "hello-up":
		named.State = AdjUp
		return NbrHello(nbrASys, 0xa9fe6400, 30, &named)
	case "lsp":
		return foreignLSP(MkLSPID(sysX, 0, 0), uint32(round+1), 1200)
	case "csnp":
		return BuildCSNP(CSNP{Source: SourceID(nbrASys), End: LSPID{0xff, 0xff, 0xff, 0xff, 0xff, 0xff, 0xff, 0xff},
			TLVs: LSPEntriesTLVs([]SNPEntry{{Lifetime: 1200, ID: MkLSPID(sysY, 0, 0), Seq: uint32(round + 1), Checksum: 0x1234}})})
	case "psnp":
		return BuildPSNP(PSNP{Source: SourceID(nbrASys), TLVs: LSPEntriesTLVs([]SNPEntry{{Lifetime: 1200, ID: MkLSPID(sysY, 0, 0), Seq: uint32(round + 1), Checksum: 0x1234}})})
	}
	return nil
}

// serverGoroutines returns the stacks of the goroutines that are inside bio-rd's IS-IS server and the
// innermost bio-rd function of the one that runs marker (e.g. "DeviceUpdate").
func serverGoroutines(marker string) (dump string, at string) {
	buf := make([]byte, 1<<20)
	buf = buf[:runtime.Stack(buf, true)]
	var keep []string
	for _, g := range strings.Split(string(buf), "\n\n") {
		if !strings.Contains(g, "bio-rd/protocols/isis/server.") {
			continue
		}
		keep = append(keep, g)
		if at == "" && strings.Contains(g, marker) {
			at = ClassifyPanic("", g).At
		}
	}
	// goroutines waiting for a lock, a wait group or a condition first: they are the cycle
	sort.SliceStable(keep, func(i, j int) bool { return syncBlocked(keep[i]) && !syncBlocked(keep[j]) })
	dump = strings.Join(keep, "\n\n")
	if len(dump) > 6000 {
		dump = dump[:6000]
	}
	return dump, at
}

func syncBlocked(g string) bool {
	hdr, _, _ := strings.Cut(g, "\n")
	return strings.Contains(hdr, "semacquire") || strings.Contains(hdr, "sync.")
}

// runInflight runs the racing rounds of a scenario: link up, PDUs of a neighbor delivered to the socket,
// link loss reported without waiting for the receiver goroutine. Every device event must return. It
// returns false when the scenario cannot go on (violation recorded).
func runInflight(c IfaceCase, h *H, out *Outcome, clause func(string) string, feat func(...string) map[string]string, read func() string) bool {
	in := c.Inflight
	if c.Passive || in.Rounds <= 0 || len(in.Frames) == 0 {
		out.Inconclusive = "bad case: racing rounds need an active interface and frames"
		return false
	}
	loss, yields := in.Loss, in.Yields
	if len(loss) == 0 {
		loss = []int{device.IfOperDown}
	}
	if len(yields) == 0 {
		yields = []int{0}
	}
	circ := h.CircuitID("eth0")
	// watched runs one device event; it must return
	watched := func(round int, st int) bool {
		ev, kind := OperName(st), "link-loss"
		if st == device.IfOperUp {
			kind = "up"
		}
		var pi *PanicInfo
		var txt string
		done := make(chan struct{})
		go func() {
			defer close(done)
			pi, txt = Guard(func() { h.EventState("eth0", uint8(st)) })
		}()
		out.Count("events", 1)
		out.Count("event_watchdog_checks", 1)
		select {
		case <-done:
		case <-time.After(eventWatchdog):
			dump, at := serverGoroutines("DeviceUpdate")
			out.Poisoned = true
			out.Violate(clause("event-hang"), feat("event", kind, "blocked_in", at),
				"scenario %s: round %d: the device event reporting %s did not return within %s while PDUs a neighbor had just sent were being received: the device server's notifier is stuck and the interface can never be restarted. Goroutines inside the IS-IS server:\n%s", c, round+1, ev, eventWatchdog, dump)
			return false
		}
		if pi != nil {
			out.Violate(clause("panic"), feat("event", ev, "panic", pi.Msg, "at", pi.At), "scenario %s: round %d: device event (%s) panicked: %s", c, round+1, ev, txt)
			out.Count("panics_recovered", 1)
			return false
		}
		return true
	}
	for r := 0; r < in.Rounds; r++ {
		if !watched(r, device.IfOperUp) {
			return false
		}
		cur, _ := h.Eth("eth0")
		if cur == nil || cur.Closed() {
			// judged by the final part of the scenario (no handle / closed handle after link up)
			out.Count("inflight_rounds_without_handle", 1)
		} else {
			for _, k := range in.Frames {
				if f := inflightFrame(k, circ, r); f != nil {
					cur.SendFromRemote(nbrAMAC, WithLLC(f))
				}
			}
			if y := yields[r%len(yields)]; y < 0 {
				// report the loss at the moment the receiver goroutine has taken the first PDU out of the socket
				for t0 := time.Now(); time.Since(t0) < 2*time.Millisecond; {
					if _, delivered := cur.Rx(); delivered >= 1 {
						break
					}
				}
			} else {
				for ; y > 0; y-- {
					runtime.Gosched()
				}
			}
			// where the PDUs are when the link loss is reported (measured, not assumed)
			entered, delivered := cur.Rx()
			switch {
			case delivered >= 1 && entered == delivered:
				out.Count("loss_events_with_pdu_being_processed", 1)
			case delivered < len(in.Frames):
				out.Count("loss_events_with_pdu_queued", 1)
			default:
				out.Count("loss_events_after_pdus_processed", 1)
			}
		}
		if !watched(r, loss[r%len(loss)]) {
			return false
		}
		out.Count("inflight_rounds", 1)
	}
	h.Settle(read)
	return true
}

// IfaceStateCases enumerates every sequence of operational states of length 1..maxLen.
func IfaceStateCases(maxLen int, passive bool, adv int) []IfaceCase {
	var out []IfaceCase
	var rec func(prefix []int)
	rec = func(prefix []int) {
		if len(prefix) > 0 {
			out = append(out, IfaceCase{Passive: passive, Adv: adv, States: append([]int{}, prefix...)})
		}
		if len(prefix) == maxLen {
			return
		}
		for st := int(device.IfOperUnknown); st <= device.IfOperUp; st++ {
			rec(append(prefix, st))
		}
	}
	rec(nil)
	return out
}

// GenIfaceStateCase draws a longer sequence of operational states (length 4..8, half of the events link up).
func GenIfaceStateCase(rng *rand.Rand) IfaceCase {
	c := IfaceCase{Passive: rng.IntN(5) == 0, Adv: []int{0, 0, 6}[rng.IntN(3)]}
	for n := 4 + rng.IntN(5); n > 0; n-- {
		st := int(device.IfOperUp)
		if rng.IntN(2) == 0 {
			st = rng.IntN(int(device.IfOperUp))
		}
		c.States = append(c.States, st)
	}
	if rng.IntN(3) > 0 {
		c.States[len(c.States)-1] = device.IfOperUp
	}
	return c
}

// GenInflightCase draws a racing scenario.
func GenInflightCase(rng *rand.Rand, rounds int) IfaceCase {
	kinds := []string{"hello-down", "hello-init", "hello-up", "lsp", "csnp", "psnp"}
	in := &Inflight{Rounds: rounds}
	switch rng.IntN(4) {
	case 0:
		in.Frames = []string{"hello-init"}
	case 1:
		in.Frames = []string{"hello-init", "hello-up"}
	case 2:
		in.Frames = []string{"hello-init", "hello-up", kinds[3+rng.IntN(3)]}
	default:
		for n := 1 + rng.IntN(4); n > 0; n-- {
			in.Frames = append(in.Frames, kinds[rng.IntN(len(kinds))])
		}
	}
	for n := 1 + rng.IntN(4); n > 0; n-- {
		in.Yields = append(in.Yields, []int{-1, -1, -1, -1, 0, 0, 1, 2, 3, 5, 10, 30}[rng.IntN(12)])
	}
	in.Loss = []int{device.IfOperDown}
	if rng.IntN(2) == 0 {
		in.Loss = nil
		for n := 1 + rng.IntN(3); n > 0; n-- {
			in.Loss = append(in.Loss, rng.IntN(int(device.IfOperUp)))
		}
	}
	return IfaceCase{Adv: 0, Inflight: in, Seq: []bool{true}}
}

// IfaceFaultCases enumerates every up/down sequence of length 1..maxLen that ends with link up on an active
// interface x advances x plans of transient transmission failures: the first, the first two, the second,
// the third to fifth transmission on every handle, and the first transmission on the handle of the last link
// up only (its number = the number of down->up changes).
func IfaceFaultCases(maxLen int, advs []int) []IfaceCase {
	var out []IfaceCase
	for _, base := range IfaceCases(maxLen, advs) {
		if base.Passive || !base.Seq[len(base.Seq)-1] {
			continue
		}
		rises := 0
		for i, u := range base.Seq {
			if u && (i == 0 || !base.Seq[i-1]) {
				rises++
			}
		}
		for _, f := range []SendFault{{0, 0, 1}, {0, 0, 2}, {0, 1, 1}, {0, 2, 3}, {rises, 0, 1}} {
			c := base
			c.Faults = []SendFault{f}
			out = append(out, c)
		}
	}
	return out
}

// GenIfaceFaultCase draws a longer scenario with random failure plans.
func GenIfaceFaultCase(rng *rand.Rand) IfaceCase {
	c := IfaceCase{Adv: []int{0, 3, 6, 11}[rng.IntN(4)]}
	for n := 2 + rng.IntN(6); n > 0; n-- {
		c.Seq = append(c.Seq, rng.IntN(2) == 0)
	}
	c.Seq = append(c.Seq, true)
	for n := 1 + rng.IntN(3); n > 0; n-- {
		c.Faults = append(c.Faults, SendFault{Gen: rng.IntN(4), From: rng.IntN(6), Count: 1 + rng.IntN(3)})
	}
	return c
}

func genOf(e *Eth) int {
	if e == nil {
		return 0
	}
	return e.gen
}

// IfaceCases enumerates every up/down sequence of length 1..maxLen × {active, passive} × advances.
func IfaceCases(maxLen int, advs []int) []IfaceCase {
	var out []IfaceCase
	for _, passive := range []bool{false, true} {
		for _, adv := range advs {
			for l := 1; l <= maxLen; l++ {
				for m := 0; m < 1<<l; m++ {
					c := IfaceCase{Passive: passive, Adv: adv}
					for i := 0; i < l; i++ {
						c.Seq = append(c.Seq, m>>(l-1-i)&1 == 1)
					}
					out = append(out, c)
				}
			}
		}
	}
	return out
}

func MustJSON(v any) json.RawMessage {
	b, err := json.Marshal(v)
	if err != nil {
		panic(err)
	}
	return b
}
