package isish

import (
	"bytes"
	"encoding/binary"
	"encoding/hex"
	"fmt"
	"hash/fnv"
	"math/rand/v2"
	"reflect"
	"sort"
	"strings"
	"time"

	bnet "github.com/bio-routing/bio-rd/net"
	"github.com/bio-routing/bio-rd/protocols/isis/packet"
	"github.com/bio-routing/bio-rd/protocols/isis/server"
	"github.com/bio-routing/bio-rd/protocols/isis/types"
)

// Codec workload (C30): decoding totality on mutated PDUs and round trips of PDUs built through
// bio-rd's own constructors (the way the server builds them) and of PDUs the server emitted.

// ---------------------------------------------------------------- specs of generated PDUs

type NbrSpec struct {
	Sys     SysID  `json:"sys"`
	PN      uint8  `json:"pn"`
	Metric  uint32 `json:"metric"`
	IfAddrs int    `json:"if_addrs"`
	NbAddrs int    `json:"nb_addrs"`
	LinkIDs bool   `json:"link_ids"`
}

type PfxSpec struct {
	Metric uint32 `json:"metric"`
	Len    uint8  `json:"len"`
	Addr   uint32 `json:"addr"`
	// flag bits of the control octet (RFC 5305 3.2): up/down (0x80, a prefix leaked down a level) and
	// "sub-TLVs present" (0x40)
	Down   bool `json:"down,omitempty"`
	SubBit bool `json:"sub,omitempty"`
}

// Ctl is the control octet handed to packet.NewExtendedIPReachability.
func (p PfxSpec) Ctl() uint8 {
	c := p.Len & 0x3f
	if p.Down {
		c |= 0x80
	}
	if p.SubBit {
		c |= 0x40
	}
	return c
}

// IfPfxSpec is one interface prefix (address + prefix length) an IP interface addresses TLV is built from.
type IfPfxSpec struct {
	Addr uint32 `json:"addr"`
	Len  uint8  `json:"len"`
}

type PDUSpec struct {
	Kind string `json:"kind"` // hello | lsp | csnp | psnp
	Sys  SysID  `json:"sys"`
	// hello
	CircuitType uint8  `json:"ct,omitempty"`
	Hold        uint16 `json:"hold,omitempty"`
	LocalCirc   uint8  `json:"lc,omitempty"`
	TWState     uint8  `json:"tw_state,omitempty"`
	TWNbr       bool   `json:"tw_nbr,omitempty"`
	TWExt       uint32 `json:"tw_ext,omitempty"`
	TWNbrCirc   uint32 `json:"tw_nbr_circ,omitempty"`
	Pad         []int  `json:"pad,omitempty"`
	Cksum       bool   `json:"cksum,omitempty"`
	ISNbr       bool   `json:"isnbr,omitempty"`
	// hello + lsp
	Protos []uint8 `json:"protos,omitempty"`
	Addrs  int     `json:"addrs,omitempty"` // number of IPv4 interface addresses
	// IfPfxs, when set, is the explicit interface prefix list (len == Addrs): several prefix lengths, and the
	// same address more than once (192.0.2.1/24 and 192.0.2.1/32 on one interface, one address shared by
	// unnumbered interfaces)
	IfPfxs []IfPfxSpec `json:"if_pfxs,omitempty"`
	Areas  [][]byte    `json:"areas,omitempty"`
	// lsp
	PN, Frag  uint8     `json:"-"`
	Seq       uint32    `json:"seq,omitempty"`
	Life      uint16    `json:"life,omitempty"`
	TypeBlock uint8     `json:"tb,omitempty"`
	Pfxs      []PfxSpec `json:"pfxs,omitempty"`
	Nbrs      []NbrSpec `json:"nbrs,omitempty"`
	Host      string    `json:"host,omitempty"`
	NoHost    bool      `json:"no_host,omitempty"`
	TERouter  uint32    `json:"te,omitempty"`
	Unknown   []byte    `json:"unk,omitempty"`
	// snp
	N   int `json:"n,omitempty"`
	MTU int `json:"mtu,omitempty"`
}

func GenPDUSpec(rng *rand.Rand, i int) PDUSpec {
	s := PDUSpec{Sys: SysID{0x0a, 0x0b, uint8(rng.IntN(256)), uint8(rng.IntN(256)), 0, uint8(i)}}
	areas := func() [][]byte {
		var as [][]byte
		k := rng.IntN(4)
		if rng.IntN(4) == 0 {
			k = rng.IntN(13) // more than the three of ISO 10589's default maximumAreaAddresses: bio-rd sets no limit
		}
		for ; k > 0; k-- {
			a := make([]byte, 1+rng.IntN(13))
			for j := range a {
				a[j] = uint8(rng.IntN(256))
			}
			as = append(as, a)
		}
		return as
	}
	count := func(small, big int) int { // mostly small, sometimes up to big
		if rng.IntN(6) == 0 {
			return rng.IntN(big + 1)
		}
		return rng.IntN(small + 1)
	}
	// interface prefix list: one time in three an explicit list drawn with replacement from a small pool of
	// addresses under several prefix lengths, so that addresses repeat
	ifPfxs := func(n int) []IfPfxSpec {
		if n == 0 || rng.IntN(3) != 0 {
			return nil
		}
		if n > 40 {
			n = 40
		}
		pool := make([]uint32, 1+rng.IntN(n))
		for j := range pool {
			pool[j] = 0xc0000201 + uint32(rng.IntN(4))<<16 + uint32(j)<<8
		}
		out := make([]IfPfxSpec, n)
		for j := range out {
			out[j] = IfPfxSpec{Addr: pool[rng.IntN(len(pool))], Len: []uint8{8, 16, 24, 30, 31, 32}[rng.IntN(6)]}
		}
		return out
	}
	switch i % 4 {
	case 0:
		s.Kind = "hello"
		s.CircuitType = uint8(1 + rng.IntN(3))
		s.Hold = uint16(rng.IntN(65536))
		s.LocalCirc = uint8(rng.IntN(256))
		s.TWState = uint8(rng.IntN(3))
		s.TWNbr = rng.IntN(2) == 0
		s.TWExt, s.TWNbrCirc = rng.Uint32(), rng.Uint32()
		s.Protos = [][]uint8{{0xcc, 0x8e}, {0xcc}, {}, {0xcc, 0x8e, 0x81}}[rng.IntN(4)]
		s.Addrs = count(3, 70)
		if s.IfPfxs = ifPfxs(s.Addrs); s.IfPfxs != nil {
			s.Addrs = len(s.IfPfxs)
		}
		s.Areas = areas()
		for k := rng.IntN(3); k > 0; k-- {
			s.Pad = append(s.Pad, rng.IntN(256))
		}
		s.Cksum = rng.IntN(5) == 0
		s.ISNbr = rng.IntN(5) == 0
	case 1:
		s.Kind = "lsp"
		s.Seq = rng.Uint32()
		s.Life = uint16(rng.IntN(65536))
		s.TypeBlock = uint8(rng.IntN(256))
		s.Protos = [][]uint8{{0xcc, 0x8e}, {0xcc}}[rng.IntN(2)]
		s.Addrs = count(4, 70)
		if s.IfPfxs = ifPfxs(s.Addrs); s.IfPfxs != nil {
			s.Addrs = len(s.IfPfxs)
		}
		s.Areas = areas()
		// half of the LSPs carry prefixes with the up/down bit, one in eight prefixes with the sub-TLV bit
		downs, subs := rng.IntN(2) == 0, rng.IntN(8) == 0
		for k := count(5, 40); k > 0; k-- {
			l := uint8(rng.IntN(33))
			a := rng.Uint32()
			if l < 32 {
				a &^= (1 << (32 - l)) - 1
			}
			s.Pfxs = append(s.Pfxs, PfxSpec{Metric: rng.Uint32(), Len: l, Addr: a, Down: downs && rng.IntN(3) == 0, SubBit: subs && rng.IntN(3) == 0})
		}
		for k := count(3, 12); k > 0; k-- {
			s.Nbrs = append(s.Nbrs, NbrSpec{Sys: SysID{1, 2, 3, 4, 5, uint8(k)}, PN: uint8(rng.IntN(2)), Metric: uint32(rng.IntN(1 << 24)),
				IfAddrs: rng.IntN(3), NbAddrs: rng.IntN(3), LinkIDs: rng.IntN(2) == 0})
		}
		s.Host = strings.Repeat("h", count(12, 255))
		s.NoHost = rng.IntN(6) == 0
		if rng.IntN(3) == 0 {
			s.TERouter = rng.Uint32() | 1
		}
		if rng.IntN(3) == 0 {
			s.Unknown = make([]byte, rng.IntN(40))
		}
	case 2, 3:
		s.Kind = "csnp"
		if i%4 == 3 {
			s.Kind = "psnp"
		}
		switch rng.IntN(4) {
		case 0:
			s.N = rng.IntN(16)
		case 1:
			s.N = 14 + rng.IntN(5)
		case 2:
			s.N = 88 + rng.IntN(8)
		default:
			s.N = rng.IntN(201)
		}
		s.MTU = []int{1500, 1500, 1500, 1497, 9000, 576}[rng.IntN(6)]
	}
	return s
}

func specEntries(s PDUSpec) []SNPEntry {
	es := make([]SNPEntry, s.N)
	for i := range es {
		// deliberately unsorted on input; distinct system ids
		k := (i*37 + 11) % 251
		es[i] = SNPEntry{Lifetime: uint16(1000 + i), ID: MkLSPID(SysID{0x20, 0, 0, 0, uint8(k), uint8(i)}, 0, 0), Seq: uint32(i + 1), Checksum: uint16(0x100 + i)}
	}
	return es
}

func specAddrs(n int) []uint32 {
	out := make([]uint32, n)
	for i := range out {
		out[i] = 0x0a000001 + uint32(i)<<8
	}
	return out
}

// BuiltPDU is a PDU built through bio-rd's API together with what an independent encoder
// produces for the same content (nil if the content does not fit the encoding, e.g. a TLV
// longer than 255 octets).
type BuiltPDU struct {
	Type   uint8
	Body   packet.Serializable
	Expect []byte
	// ExpectAlt, when set, is a second encoding of the same content the statement allows as well
	ExpectAlt []byte
	Note      string
}

func hdrFor(typ uint8) *packet.ISISHeader {
	return &packet.ISISHeader{ProtoDiscriminator: 0x83, LengthIndicator: uint8(fixedLen[typ]), ProtocolIDExtension: 1, PDUType: typ, Version: 1}
}

func fits(tlvs []TLV) bool {
	for _, t := range tlvs {
		if len(t.V) > 255 {
			return false
		}
	}
	return true
}

// BuildFromSpec builds the PDU(s) of a spec the way bio-rd's server builds its own PDUs.
func BuildFromSpec(s PDUSpec) []BuiltPDU {
	areas := make([]types.AreaID, len(s.Areas))
	for i, a := range s.Areas {
		areas[i] = types.AreaID(a)
	}
	addrs := specAddrs(s.Addrs)
	pfxs := make([]*bnet.Prefix, len(addrs))
	for i, a := range addrs {
		pfxs[i] = bnet.NewPfx(bnet.IPv4(a), 24).Ptr()
	}
	// uniq: the addresses without repetitions (nil if none repeats). Whether an address configured twice is
	// announced twice or once is bio-rd's choice; both encodings are the same content.
	var uniq []uint32
	note := ""
	if len(s.IfPfxs) > 0 {
		addrs, pfxs = nil, nil
		seen := map[uint32]bool{}
		for _, p := range s.IfPfxs {
			addrs = append(addrs, p.Addr)
			pfxs = append(pfxs, bnet.NewPfx(bnet.IPv4(p.Addr), p.Len).Ptr())
			if !seen[p.Addr] {
				seen[p.Addr] = true
				uniq = append(uniq, p.Addr)
			}
		}
		if len(uniq) == len(addrs) {
			uniq = nil
		} else {
			note = "repeated-if-addr"
		}
	}
	switch s.Kind {
	case "hello":
		h := &packet.P2PHello{CircuitType: s.CircuitType, SystemID: types.SystemID(s.Sys), HoldingTimer: s.Hold, PDULength: packet.P2PHelloMinLen, LocalCircuitID: s.LocalCirc}
		tw := packet.NewP2PAdjacencyStateTLV(s.TWState, s.TWExt)
		mtw := ThreeWay{State: s.TWState, HasExt: true, ExtCircuit: s.TWExt}
		if s.TWNbr {
			tw.NeighborSystemID = types.SystemID(othSys)
			tw.NeighborExtendedLocalCircuitID = s.TWNbrCirc
			tw.TLVLength = packet.P2PAdjacencyStateTLVLenWithNeighbor
			mtw.HasNeighbor, mtw.NbrSys, mtw.HasNbrCircID, mtw.NbrCircuit = true, othSys, true, s.TWNbrCirc
		}
		h.TLVs = append(h.TLVs, tw, packet.NewProtocolsSupportedTLV(s.Protos), packet.NewIPInterfaceAddressesTLV(pfxs), packet.NewAreaAddressesTLV(areas))
		mine := []TLV{mtw.TLV(), ProtocolsTLV(s.Protos...), IPIfAddrTLV(addrs...), AreaTLV(s.Areas...)}
		if s.Cksum {
			h.TLVs = append(h.TLVs, &packet.ChecksumTLV{TLVType: packet.ChecksumTLVType, TLVLength: 2, Checksum: 0xbeef})
			mine = append(mine, TLV{TLVChecksum, []byte{0xbe, 0xef}})
		}
		if s.ISNbr {
			h.TLVs = append(h.TLVs, packet.ISNeighborsTLV{TLVType: packet.ISNeighborsTLVType, TLVLength: 6, NeighborSNPA: types.SystemID(nbrAMAC)})
			mine = append(mine, TLV{TLVISNeighbor, nbrAMAC[:]})
		}
		for _, p := range s.Pad {
			h.TLVs = append(h.TLVs, packet.NewPaddingTLV(uint8(p)))
			mine = append(mine, PaddingTLV(p))
		}
		b := BuiltPDU{Type: PDUP2PHello, Body: h, Note: note}
		if fits(mine) {
			b.Expect = BuildHello(Hello{CircuitType: s.CircuitType, Sys: s.Sys, Hold: s.Hold, LocalCircuit: s.LocalCirc, TLVs: mine})
			if uniq != nil {
				alt := append([]TLV{}, mine...)
				alt[2] = IPIfAddrTLV(uniq...)
				b.ExpectAlt = BuildHello(Hello{CircuitType: s.CircuitType, Sys: s.Sys, Hold: s.Hold, LocalCircuit: s.LocalCirc, TLVs: alt})
			}
		} else {
			b.Note = "tlv-overflow"
		}
		return []BuiltPDU{b}
	case "lsp":
		l := &packet.LSPDU{RemainingLifetime: s.Life, LSPID: packet.LSPID{SystemID: types.SystemID(s.Sys)}, SequenceNumber: s.Seq, TypeBlock: s.TypeBlock}
		eip := packet.NewExtendedIPReachabilityTLV()
		var mp []ExtIPPfx
		subBit := false
		for _, p := range s.Pfxs {
			eip.AddExtendedIPReachability(packet.NewExtendedIPReachability(p.Metric, p.Ctl(), p.Addr))
			mp = append(mp, ExtIPPfx{Metric: p.Metric, Len: p.Len, Addr: p.Addr, Down: p.Down})
			if p.Down || p.SubBit {
				if !strings.Contains(note, "ext-ip-flag-bits") {
					note = strings.TrimPrefix(note+"+ext-ip-flag-bits", "+")
				}
			}
			subBit = subBit || p.SubBit
		}
		eis := packet.NewExtendedISReachabilityTLV()
		var mn []ExtISNbr
		for _, n := range s.Nbrs {
			x := packet.NewExtendedISReachabilityNeighbor(types.SourceID{SystemID: types.SystemID(n.Sys), CircuitID: n.PN}, n.Metric)
			var id [7]byte
			copy(id[:], n.Sys[:])
			id[6] = n.PN
			m := ExtISNbr{ID: id, Metric: n.Metric}
			for k := 0; k < n.IfAddrs; k++ {
				x.AddSubTLV(packet.NewIPv4InterfaceAddressSubTLV(0x0a010100 + uint32(k)))
				m.Sub = append(m.Sub, SubTLV{6, binary.BigEndian.AppendUint32(nil, 0x0a010100+uint32(k))})
			}
			for k := 0; k < n.NbAddrs; k++ {
				x.AddSubTLV(packet.NewIPv4NeighborAddressSubTLV(0x0a010200 + uint32(k)))
				m.Sub = append(m.Sub, SubTLV{8, binary.BigEndian.AppendUint32(nil, 0x0a010200+uint32(k))})
			}
			if n.LinkIDs {
				x.AddSubTLV(packet.NewLinkLocalRemoteIdentifiersSubTLV(5, 77))
				m.Sub = append(m.Sub, SubTLV{4, []byte{0, 0, 0, 5, 0, 0, 0, 77}})
			}
			eis.AddNeighbor(x)
			mn = append(mn, m)
		}
		l.TLVs = []packet.TLV{packet.NewAreaAddressesTLV(areas), packet.NewProtocolsSupportedTLV(s.Protos), packet.NewIPInterfaceAddressesTLV(pfxs), eip, eis}
		mine := []TLV{AreaTLV(s.Areas...), ProtocolsTLV(s.Protos...), IPIfAddrTLV(addrs...), ExtIPReachTLV(mp...), ExtISReachTLV(mn...)}
		if !s.NoHost {
			l.TLVs = append(l.TLVs, packet.NewDynamicHostnameTLV([]byte(s.Host)))
			mine = append(mine, HostnameTLV(s.Host))
		}
		if s.TERouter != 0 {
			l.TLVs = append(l.TLVs, packet.NewTrafficEngineeringRouterIDTLV(s.TERouter))
			mine = append(mine, TLV{TLVTERouterID, binary.BigEndian.AppendUint32(nil, s.TERouter)})
		}
		if s.Unknown != nil {
			l.TLVs = append(l.TLVs, &packet.UnknownTLV{TLVType: 250, TLVLength: uint8(len(s.Unknown)), TLVValue: s.Unknown})
			mine = append(mine, TLV{250, s.Unknown})
		}
		l.UpdateLength()
		l.SetChecksum()
		b := BuiltPDU{Type: PDUL2LSP, Body: l, Note: note}
		if fits(mine) && subBit {
			// bio-rd has no sub-TLV support for prefixes yet (it writes the control octet as given and no
			// sub-TLV length octet) and decodes TLV 135 as opaque octets: there is no reference encoding to
			// compare with; the statement's round trip through Serialize/Decode is judged all the same
		} else if fits(mine) {
			b.Expect = BuildLSP(LSP{Lifetime: s.Life, ID: MkLSPID(s.Sys, 0, 0), Seq: s.Seq, TypeBlock: s.TypeBlock, TLVs: mine})
			if uniq != nil {
				alt := append([]TLV{}, mine...)
				alt[2] = IPIfAddrTLV(uniq...)
				b.ExpectAlt = BuildLSP(LSP{Lifetime: s.Life, ID: MkLSPID(s.Sys, 0, 0), Seq: s.Seq, TypeBlock: s.TypeBlock, TLVs: alt})
			}
		} else {
			b.Note = "tlv-overflow"
			for _, t := range mine {
				if len(t.V) > 255 {
					b.Note = fmt.Sprintf("tlv-overflow:%d", t.T)
					break
				}
			}
		}
		return []BuiltPDU{b}
	case "csnp", "psnp":
		es := specEntries(s)
		in := make([]*packet.LSPEntry, len(es))
		for i, e := range es {
			in[i] = &packet.LSPEntry{RemainingLifetime: e.Lifetime, SequenceNumber: e.Seq, LSPChecksum: e.Checksum,
				LSPID: packet.LSPID{SystemID: types.SystemID(e.ID.Sys()), PseudonodeID: e.ID[6], LSPNumber: e.ID[7]}}
		}
		src := types.SourceID{SystemID: types.SystemID(s.Sys)}
		var out []BuiltPDU
		if s.Kind == "csnp" {
			ps := packet.NewCSNPs(src, in, s.MTU)
			for i := range ps {
				out = append(out, BuiltPDU{Type: PDUL2CSNP, Body: &ps[i]})
			}
		} else {
			ps := packet.NewPSNPs(src, in, s.MTU)
			for i := range ps {
				out = append(out, BuiltPDU{Type: PDUL2PSNP, Body: &ps[i]})
			}
		}
		return out
	}
	return nil
}

// ---------------------------------------------------------------- round trip oracle

func serializeWithHeader(typ uint8, body packet.Serializable) []byte {
	hb := bytes.NewBuffer(nil)
	hdrFor(typ).Serialize(hb)
	bb := bytes.NewBuffer(nil)
	body.Serialize(bb)
	return append(hb.Bytes(), bb.Bytes()...)
}

func pduName(t uint8) string {
	switch t {
	case PDUP2PHello:
		return "hello"
	case PDUL2LSP:
		return "lsp"
	case PDUL2CSNP:
		return "csnp"
	case PDUL2PSNP:
		return "psnp"
	}
	return fmt.Sprintf("type%#x", t)
}

func bodyTLVs(b any) []packet.TLV {
	switch x := b.(type) {
	case *packet.P2PHello:
		return x.TLVs
	case *packet.LSPDU:
		return x.TLVs
	case *packet.CSNP:
		return x.TLVs
	case *packet.PSNP:
		return x.TLVs
	}
	return nil
}

// deepEq compares two values field by field; nil and empty slices are equal, pointers are followed.
func deepEq(a, b reflect.Value, path string) string {
	for a.IsValid() && (a.Kind() == reflect.Ptr || a.Kind() == reflect.Interface) {
		if a.IsNil() {
			break
		}
		a = a.Elem()
	}
	for b.IsValid() && (b.Kind() == reflect.Ptr || b.Kind() == reflect.Interface) {
		if b.IsNil() {
			break
		}
		b = b.Elem()
	}
	if !a.IsValid() || !b.IsValid() {
		if a.IsValid() != b.IsValid() {
			return path + ": one side missing"
		}
		return ""
	}
	if a.Type() != b.Type() {
		return fmt.Sprintf("%s: types %s / %s", path, a.Type(), b.Type())
	}
	switch a.Kind() {
	case reflect.Struct:
		for i := 0; i < a.NumField(); i++ {
			if a.Type().Field(i).Name == "TLVs" {
				continue // compared separately
			}
			if d := deepEq(a.Field(i), b.Field(i), path+"."+a.Type().Field(i).Name); d != "" {
				return d
			}
		}
	case reflect.Slice, reflect.Array:
		if a.Len() != b.Len() {
			return fmt.Sprintf("%s: %d / %d elements", path, a.Len(), b.Len())
		}
		for i := 0; i < a.Len(); i++ {
			if d := deepEq(a.Index(i), b.Index(i), fmt.Sprintf("%s[%d]", path, i)); d != "" {
				return d
			}
		}
	case reflect.Ptr, reflect.Interface:
		if a.IsNil() != b.IsNil() {
			return path + ": nil / non-nil"
		}
	default:
		if a.CanInterface() && b.CanInterface() {
			if !reflect.DeepEqual(a.Interface(), b.Interface()) {
				return fmt.Sprintf("%s: %v / %v", path, a.Interface(), b.Interface())
			}
		} else if fmt.Sprint(a) != fmt.Sprint(b) {
			return fmt.Sprintf("%s: %v / %v", path, a, b)
		}
	}
	return ""
}

func rawCase(b []byte, src string) *Case {
	return &Case{Kind: "raw", Raw: MustJSON(map[string]string{"hex": hex.EncodeToString(b), "src": src})}
}

// RoundTripBuilt judges one PDU built through bio-rd's API.
func RoundTripBuilt(p BuiltPDU, out *Outcome, witness *Case) {
	name := pduName(p.Type)
	switch b := p.Body.(type) {
	case *packet.CSNP:
		p.Note = "entries:" + bandOf(len(b.GetLSPEntries()))
	case *packet.PSNP:
		p.Note = "entries:" + bandOf(len(b.GetLSPEntries()))
	}
	feat := func(kv ...string) map[string]string {
		m := map[string]string{"pdu": name, "src": "generated"}
		if p.Note != "" {
			m["cause"] = p.Note
		}
		for i := 0; i+1 < len(kv); i += 2 {
			m[kv[i]] = kv[i+1]
		}
		return m
	}
	viol := func(clause string, f map[string]string, format string, a ...any) {
		out.V = append(out.V, V{Clause: clause, Features: f, Detail: fmt.Sprintf(format, a...), Case: witness})
	}
	var b1 []byte
	if pi, txt := Guard(func() { b1 = serializeWithHeader(p.Type, p.Body) }); pi != nil {
		viol("panic", feat("op", "serialize", "panic", pi.Msg, "at", pi.At), "Serialize panicked: %s", txt)
		return
	}
	out.Evals++
	out.Count("roundtrips_"+name, 1)
	// 1. independent encoder agrees octet for octet (checksum of LSPs judged separately)
	if p.Expect != nil {
		x, y := append([]byte{}, b1...), append([]byte{}, p.Expect...)
		if p.Type == PDUL2LSP && len(x) >= 27 && len(y) >= 27 {
			if FletcherOK(x[12:]) {
				out.Count("lsp_checksums_valid", 1)
			} else {
				out.Count("lsp_checksums_invalid", 1)
			}
			x[24], x[25], y[24], y[25] = 0, 0, 0, 0
		}
		same := bytes.Equal(x, y)
		if !same && p.ExpectAlt != nil && len(p.ExpectAlt) >= 27 {
			z := append([]byte{}, p.ExpectAlt...)
			if p.Type == PDUL2LSP {
				z[24], z[25] = 0, 0
			}
			same = bytes.Equal(x, z)
		}
		if !same {
			viol("encoding", feat(), "bio-rd serialises %x, an independent ISO 10589 encoder produces %x for the same content", b1, p.Expect)
			return
		}
		out.Count("reference_encodings_compared", 1)
	} else if p.Type == PDUL2LSP || p.Type == PDUP2PHello {
		out.Count("roundtrips_without_reference_encoding", 1)
	}
	roundTripRaw(name, "generated", p.Note, b1, p.Body, out, witness)
}

// roundTripRaw: Decode(b) must succeed, agree with orig (if given) field by field, and
// re-serialise to b.
func roundTripRaw(name, src, note string, b1 []byte, orig any, out *Outcome, witness *Case) {
	feat := func(kv ...string) map[string]string {
		m := map[string]string{"pdu": name, "src": src}
		if note != "" {
			m["cause"] = note
		}
		for i := 0; i+1 < len(kv); i += 2 {
			m[kv[i]] = kv[i+1]
		}
		return m
	}
	viol := func(clause string, f map[string]string, format string, a ...any) {
		out.V = append(out.V, V{Clause: clause, Features: f, Detail: fmt.Sprintf(format, a...), Case: witness})
	}
	var d *packet.ISISPacket
	var derr error
	if pi, txt := Guard(func() { d, derr = packet.Decode(bytes.NewBuffer(WithLLC(b1))) }); pi != nil {
		viol("panic", feat("op", "decode", "panic", pi.Msg, "at", pi.At), "Decode of a PDU bio-rd serialised panicked: %s", txt)
		return
	}
	if derr != nil || d == nil || d.Body == nil {
		viol("roundtrip", feat("step", "decode"), "a %s serialised by bio-rd (%d octets: %s) does not decode: %v", name, len(b1), clip(b1), derr)
		return
	}
	if orig != nil {
		if diff := deepEq(reflect.ValueOf(orig), reflect.ValueOf(d.Body), name); diff != "" {
			viol("roundtrip", feat("step", "fields"), "decoded %s differs from the serialised one: %s (PDU %s)", name, diff, clip(b1))
			return
		}
		ot, dt := bodyTLVs(orig), bodyTLVs(d.Body)
		if len(ot) != len(dt) {
			viol("roundtrip", feat("step", "tlv-count"), "%s serialised with %d TLVs decodes to %d TLVs (PDU %s)", name, len(ot), len(dt), clip(b1))
			return
		}
		for i := range ot {
			a, b := SerializeTLV(ot[i]), SerializeTLV(dt[i])
			tt := fmt.Sprint(ot[i].Type())
			if _, unknown := dt[i].(*packet.UnknownTLV); unknown {
				out.Count("tlvs_raw_compared", 1)
			} else {
				out.Count("tlvs_typed_compared", 1)
				if diff := deepEq(reflect.ValueOf(ot[i]), reflect.ValueOf(dt[i]), "TLV"+tt); diff != "" {
					viol("roundtrip", feat("step", "tlv-fields", "tlv", tt), "TLV #%d of the %s decodes to different fields: %s", i, name, diff)
					return
				}
			}
			if !bytes.Equal(a, b) {
				viol("roundtrip", feat("step", "tlv-bytes", "tlv", tt), "TLV #%d (type %s) of the %s: serialised %x, after decoding %x", i, tt, name, a, b)
				return
			}
		}
	}
	var b2 []byte
	ser, ok := d.Body.(packet.Serializable)
	if !ok {
		viol("roundtrip", feat("step", "reserialize"), "decoded body %T cannot be serialised", d.Body)
		return
	}
	if pi, txt := Guard(func() {
		hb := bytes.NewBuffer(nil)
		d.Header.Serialize(hb)
		bb := bytes.NewBuffer(nil)
		ser.Serialize(bb)
		b2 = append(hb.Bytes(), bb.Bytes()...)
	}); pi != nil {
		viol("panic", feat("op", "reserialize", "panic", pi.Msg, "at", pi.At), "Serialize(Decode(x)) panicked: %s", txt)
		return
	}
	if !bytes.Equal(b1, b2) {
		viol("roundtrip", feat("step", "reserialize"), "Serialize(Decode(x)) != x for a %s: x=%s, got %s", name, clip(b1), clip(b2))
	}
}

func clip(b []byte) string {
	if len(b) > 120 {
		return fmt.Sprintf("%x…(%d octets)", b[:120], len(b))
	}
	return fmt.Sprintf("%x", b)
}

// RoundTripEmitted judges one PDU the running server put on the wire.
func RoundTripEmitted(raw []byte, out *Outcome) { RoundTripWire(raw, "emitted", out) }

// RoundTripWire judges one well-formed PDU given as octets: src "emitted" = sent by the running
// server, src "wire" = built by the independent encoder in a layout Decode accepts but the server
// itself may never emit (what bio-rd serialises after decoding it must be the same PDU).
func RoundTripWire(raw []byte, src string, out *Outcome) {
	if len(raw) < 8 {
		return
	}
	name := pduName(raw[4])
	w := rawCase(raw, src)
	out.Evals++
	out.Count(src+"_"+name, 1)
	p, perr := Parse(raw)
	if perr != nil {
		if src != "emitted" {
			out.Inconclusive = fmt.Sprintf("harness built a PDU its own parser rejects: %v (%s)", perr, clip(raw))
			return
		}
		f := map[string]string{"pdu": name}
		if fl, ok := fixedLen[raw[4]]; ok && (raw[4] == PDUL2CSNP || raw[4] == PDUL2PSNP) && len(raw) >= fl {
			f["entries"] = bandOf((len(raw) - fl - 2) / 16)
		}
		out.V = append(out.V, V{Clause: "emitted-malformed", Features: f, Case: w,
			Detail: fmt.Sprintf("a %s the server sent (%d octets: %s) is not a well-formed ISO 10589 PDU: %v", name, len(raw), clip(raw), perr)})
		return
	}
	n0 := len(out.V)
	note := ""
	if src == "wire" {
		note = wireNote(p)
	}
	roundTripRaw(name, src, note, raw, nil, out, w)
	if len(out.V) > n0 {
		return
	}
	// bio-rd's decoder and the independent parser must see the same content
	d, _ := packet.Decode(bytes.NewBuffer(WithLLC(raw)))
	diff := ""
	cmpTLVs := func(mine []TLV, theirs []packet.TLV) {
		if len(mine) != len(theirs) {
			diff = fmt.Sprintf("%d TLVs on the wire, bio-rd decodes %d", len(mine), len(theirs))
			return
		}
		for i := range mine {
			if mine[i].T != theirs[i].Type() || len(mine[i].V) != int(theirs[i].Length()) {
				diff = fmt.Sprintf("TLV #%d: wire type %d length %d, bio-rd decodes type %d length %d", i, mine[i].T, len(mine[i].V), theirs[i].Type(), theirs[i].Length())
				return
			}
		}
	}
	switch b := d.Body.(type) {
	case *packet.P2PHello:
		if SysID(b.SystemID) != p.Hello.Sys || b.HoldingTimer != p.Hello.Hold || b.CircuitType != p.Hello.CircuitType || b.LocalCircuitID != p.Hello.LocalCircuit || b.PDULength != p.Hello.PDULen {
			diff = "fixed hello fields differ"
		}
		cmpTLVs(p.Hello.TLVs, b.TLVs)
		if t, ok := Find(p.Hello.TLVs, TLVThreeWay); ok && diff == "" {
			if tw, err := ParseThreeWay(t.V); err == nil {
				if bt := b.GetP2PAdjTLV(); bt == nil {
					diff = "three-way TLV on the wire, GetP2PAdjTLV returns nil"
				} else if bt.AdjacencyState != tw.State || (tw.HasExt && bt.ExtendedLocalCircuitID != tw.ExtCircuit) || (tw.HasNeighbor && SysID(bt.NeighborSystemID) != tw.NbrSys) || (tw.HasNbrCircID && bt.NeighborExtendedLocalCircuitID != tw.NbrCircuit) {
					diff = fmt.Sprintf("three-way TLV %x decodes to state %d circuit %d neighbor %x/%d", t.V, bt.AdjacencyState, bt.ExtendedLocalCircuitID, bt.NeighborSystemID, bt.NeighborExtendedLocalCircuitID)
				}
			}
		}
	case *packet.LSPDU:
		id := MkLSPID(SysID(b.LSPID.SystemID), b.LSPID.PseudonodeID, b.LSPID.LSPNumber)
		if id != p.LSP.ID || b.SequenceNumber != p.LSP.Seq || b.RemainingLifetime != p.LSP.Lifetime || b.Checksum != p.LSP.Checksum || b.TypeBlock != p.LSP.TypeBlock || b.Length != p.LSP.PDULen {
			diff = "fixed LSP fields differ"
		}
		cmpTLVs(p.LSP.TLVs, b.TLVs)
	case *packet.CSNP:
		cmpTLVs(p.CSNP.TLVs, b.TLVs)
		mine, _ := Entries(p.CSNP.TLVs)
		if len(mine) != len(b.GetLSPEntries()) && diff == "" {
			diff = fmt.Sprintf("%d LSP entries on the wire, GetLSPEntries returns %d", len(mine), len(b.GetLSPEntries()))
		}
	case *packet.PSNP:
		cmpTLVs(p.PSNP.TLVs, b.TLVs)
		mine, _ := Entries(p.PSNP.TLVs)
		if len(mine) != len(b.GetLSPEntries()) && diff == "" {
			diff = fmt.Sprintf("%d LSP entries on the wire, GetLSPEntries returns %d", len(mine), len(b.GetLSPEntries()))
		}
	}
	if diff != "" {
		f := map[string]string{"pdu": name, "src": src, "step": "content"}
		if note != "" {
			f["cause"] = note
		}
		out.V = append(out.V, V{Clause: "roundtrip", Features: f, Case: w,
			Detail: fmt.Sprintf("%s (%s, %s): %s", name, src, clip(raw), diff)})
	}
}

// CheckSNPSet: the PDUs NewCSNPs/NewPSNPs built must together carry exactly the given entries.
func CheckSNPSet(s PDUSpec, built []BuiltPDU, out *Outcome, witness *Case) {
	want := map[string]bool{}
	for _, e := range specEntries(s) {
		want[fmt.Sprintf("%s#%d", e.ID, e.Seq)] = true
	}
	got := map[string]bool{}
	for _, p := range built {
		raw := serializeWithHeader(p.Type, p.Body)
		pp, err := Parse(raw)
		if err != nil {
			return // reported by the round trip
		}
		es, _ := Entries(pp.TLVs())
		for _, e := range es {
			got[fmt.Sprintf("%s#%d", e.ID, e.Seq)] = true
		}
		if len(raw) > s.MTU {
			out.V = append(out.V, V{Clause: "snp-size", Features: map[string]string{"pdu": s.Kind}, Case: witness,
				Detail: fmt.Sprintf("%s of %d octets built for a maximum PDU length of %d", s.Kind, len(raw), s.MTU)})
		}
	}
	var missing []string
	for k := range want {
		if !got[k] {
			missing = append(missing, k)
		}
	}
	sort.Strings(missing)
	if len(missing) > 0 || len(got) != len(want) {
		out.V = append(out.V, V{Clause: "snp-set", Features: map[string]string{"pdu": s.Kind, "entries": bandOf(s.N)}, Case: witness,
			Detail: fmt.Sprintf("%d LSP entries handed to New%ss, the %d PDUs built carry %d of them (%d missing)", len(want), strings.ToUpper(s.Kind), len(built), len(got), len(missing))})
	}
}

// RunSpec builds and judges one generated PDU spec.
func RunSpec(s PDUSpec, out *Outcome) {
	w := &Case{Kind: "spec", Raw: MustJSON(s)}
	var built []BuiltPDU
	if pi, txt := Guard(func() { built = BuildFromSpec(s) }); pi != nil {
		f := map[string]string{"pdu": s.Kind, "src": "generated", "op": "build", "panic": pi.Msg, "at": pi.At}
		out.V = append(out.V, V{Clause: "panic", Features: f, Detail: fmt.Sprintf("building a %s through bio-rd's constructors (%d entries, max PDU length %d) panicked: %s", s.Kind, s.N, s.MTU, txt), Case: w})
		return
	}
	nv := len(out.V)
	for _, b := range built {
		if strings.HasPrefix(b.Note, "tlv-overflow") {
			// content that does not fit a single TLV is outside "bounded TLV contents"; what the
			// server itself does with many addresses/adjacencies is judged on the PDUs it emits
			out.Count("specs_skipped_"+strings.ReplaceAll(b.Note, ":", "_"), 1)
			continue
		}
		RoundTripBuilt(b, out, w)
	}
	if (s.Kind == "csnp" || s.Kind == "psnp") && len(out.V) == nv {
		CheckSNPSet(s, built, out, w)
	}
	nd, ns, rep := 0, 0, 0
	for _, p := range s.Pfxs {
		if p.Down {
			nd++
		}
		if p.SubBit {
			ns++
		}
	}
	seen := map[uint32]bool{}
	for _, p := range s.IfPfxs {
		if seen[p.Addr] {
			rep++
		}
		seen[p.Addr] = true
	}
	out.Count("ext_ip_entries_updown_bit", nd)
	out.Count("ext_ip_entries_subtlv_bit", ns)
	if nd+ns > 0 {
		out.Count("lsps_with_ext_ip_flag_bits", 1)
	}
	if rep > 0 {
		out.Count(s.Kind+"s_with_repeated_if_addr", 1)
	}
	key := fmt.Sprintf("%s/%d/%d/%d/%d/%d/%v", s.Kind, s.Addrs, len(s.Pfxs), len(s.Nbrs), len(s.Host), s.N, s.TWNbr)
	if nd+ns+rep > 0 {
		key += fmt.Sprintf("/%d/%d/%d", nd, ns, rep)
	}
	out.Nontrivial = append(out.Nontrivial, key)
}

// ---------------------------------------------------------------- totality

// DecodeInput feeds one byte string to every decoder entry point; only a panic is a violation.
func DecodeInput(in []byte, mut string, out *Outcome) {
	w := &Case{Kind: "dec", Raw: MustJSON(map[string]any{"inputs": []string{hex.EncodeToString(in)}, "muts": []string{mut}})}
	typ := "short"
	if len(in) >= 8 {
		typ = pduName(in[7])
	}
	var pkt *packet.ISISPacket
	var err error
	if pi, txt := Guard(func() { pkt, err = packet.Decode(bytes.NewBuffer(append([]byte{}, in...))) }); pi != nil {
		out.V = append(out.V, V{Clause: "decode-panic", Features: map[string]string{"decoder": "Decode", "pdu": typ, "panic": pi.Msg, "at": pi.At}, Case: w,
			Detail: fmt.Sprintf("packet.Decode panicked on %d octets (%s, mutation %s): %s", len(in), clip(in), mut, txt)})
		out.Evals++
		return
	}
	out.Evals++
	if err != nil {
		out.Count("decode_errors", 1)
		if strings.Contains(err.Error(), "TLV") {
			out.Nontrivial = append(out.Nontrivial, hashKey(in))
		}
	} else if pkt != nil {
		out.Count("decode_ok", 1)
		if pkt.Body != nil {
			out.Nontrivial = append(out.Nontrivial, hashKey(in))
		}
	} else {
		out.V = append(out.V, V{Clause: "decode-nil", Features: map[string]string{"pdu": typ}, Case: w, Detail: fmt.Sprintf("packet.Decode returned neither a PDU nor an error for %s", clip(in))})
	}
	// LAN hellos have their own exported decoder
	if len(in) >= 11 && (in[7] == PDUL1LANHello || in[7] == PDUL2LANHello) {
		if pi, txt := Guard(func() { packet.DecodeL2Hello(bytes.NewBuffer(append([]byte{}, in[11:]...))) }); pi != nil {
			out.V = append(out.V, V{Clause: "decode-panic", Features: map[string]string{"decoder": "DecodeL2Hello", "pdu": typ, "panic": pi.Msg, "at": pi.At}, Case: w,
				Detail: fmt.Sprintf("packet.DecodeL2Hello panicked on %s (mutation %s): %s", clip(in), mut, txt)})
		}
		out.Count("lan_hello_decodes", 1)
	}
	out.Count("mut_"+mut, 1)
}

func hashKey(b []byte) string {
	h := fnv.New64a()
	h.Write(b)
	return fmt.Sprintf("%x", h.Sum64())
}

// Corpus returns valid PDUs (with LLC) of every type and TLV offsets for targeted mutations.
func Corpus() [][]byte {
	tw15 := ThreeWay{State: AdjUp, HasExt: true, ExtCircuit: 7, HasNeighbor: true, NbrSys: dutSys, HasNbrCircID: true, NbrCircuit: 5}
	var nb [7]byte
	copy(nb[:], sysY[:])
	es := specEntries(PDUSpec{N: 20})
	var c [][]byte
	c = append(c,
		NbrHello(nbrASys, 0x0a000000, 30, &ThreeWay{State: AdjDown, HasExt: true, ExtCircuit: 7}),
		NbrHello(nbrASys, 0x0a000000, 30, &tw15, PaddingTLV(40), TLV{TLVChecksum, []byte{1, 2}}, TLV{TLVISNeighbor, nbrBMAC[:]}, TLV{TLVAuth, []byte{1, 'p', 'w'}}),
		NbrHello(nbrASys, 0x0a000000, 9, &ThreeWay{State: AdjInit}),
		foreignLSP(MkLSPID(sysX, 0, 0), 7, 1200),
		BuildLSP(LSP{Lifetime: 100, ID: MkLSPID(sysY, 1, 2), Seq: 1, TLVs: []TLV{AreaTLV(dutArea, []byte{0x47}), ProtocolsTLV(0xcc), IPIfAddrTLV(1, 2, 3), HostnameTLV("x"),
			TLV{TLVISReach, append([]byte{0, 10, 0x80, 0x80, 0x80}, nb[:]...)}, TLV{TLVTERouterID, []byte{1, 1, 1, 1}},
			ExtISReachTLV(ExtISNbr{ID: nb, Metric: 5}, ExtISNbr{ID: nb, Metric: 6, Sub: []SubTLV{{4, make([]byte, 8)}}}),
			ExtIPReachTLV(ExtIPPfx{Metric: 1, Len: 0}, ExtIPPfx{Metric: 2, Len: 32, Addr: 0x01020304}, ExtIPPfx{Metric: 3, Len: 9, Addr: 0x0a800000, HasSub: true, Sub: []SubTLV{{1, []byte{0, 0, 0, 1}}}})}}),
		BuildCSNP(CSNP{Source: SourceID(nbrASys), End: LSPID{0xff, 0xff, 0xff, 0xff, 0xff, 0xff, 0xff, 0xff}, TLVs: LSPEntriesTLVs(es)}),
		BuildCSNP(CSNP{Source: SourceID(nbrASys), End: LSPID{0xff, 0xff, 0xff, 0xff, 0xff, 0xff, 0xff, 0xff}}),
		BuildPSNP(PSNP{Source: SourceID(nbrASys), TLVs: LSPEntriesTLVs(es[:3])}),
	)
	// the same bodies under the other PDU type codes (level 1 PDUs, LAN hellos)
	lan := append(header(PDUL2LANHello), 2)
	lan = append(lan, nbrASys[:]...)
	lan = append(lan, 0, 30, 0, 0, 64)
	lan = append(lan, nbrASys[:]...)
	lan = append(lan, 1)
	lan = append(lan, tlvBytes([]TLV{AreaTLV(dutArea), ProtocolsTLV(0xcc, 0x8e), TLV{TLVISNeighbor, nbrBMAC[:]}, PaddingTLV(255)})...)
	binary.BigEndian.PutUint16(lan[17:], uint16(len(lan)))
	c = append(c, lan)
	n := len(c)
	for i := 0; i < n; i++ {
		for _, t := range []uint8{PDUL1LSP, PDUL1CSNP, PDUL1PSNP, PDUL1LANHello, 0x18, 0x24, 0x26} {
			if i%3 == int(t)%3 {
				x := append([]byte{}, c[i]...)
				x[4] = t
				c = append(c, x)
			}
		}
	}
	for i := range c {
		c[i] = WithLLC(c[i])
	}
	return c
}

// tlvOffsets returns the offsets of the TLV headers of a valid PDU (with LLC).
func tlvOffsets(p []byte) []int {
	if len(p) < 11 {
		return nil
	}
	fl, ok := fixedLen[p[7]]
	if !ok {
		return nil
	}
	var offs []int
	for o := 3 + fl; o+2 <= len(p); o += 2 + int(p[o+1]) {
		offs = append(offs, o)
	}
	return offs
}

var knownTLVTypes = []uint8{1, 2, 6, 8, 9, 10, 12, 22, 129, 132, 134, 135, 137, 240, 0, 255}

// Mutate derives a hostile input from a valid PDU.
func Mutate(rng *rand.Rand, corpus [][]byte) ([]byte, string) {
	base := corpus[rng.IntN(len(corpus))]
	p := append([]byte{}, base...)
	offs := tlvOffsets(p)
	name := ""
	for k := 1 + rng.IntN(3); k > 0 && len(p) > 0; k-- {
		m := rng.IntN(12)
		switch m {
		case 0:
			p[rng.IntN(len(p))] ^= 1 << rng.IntN(8)
			name += "bitflip,"
		case 1:
			p[rng.IntN(len(p))] = []uint8{0, 1, 0x7f, 0x80, 0xfe, 0xff}[rng.IntN(6)]
			name += "byteset,"
		case 2:
			p = p[:rng.IntN(len(p)+1)]
			name += "truncate,"
		case 3:
			if len(offs) > 0 {
				o := offs[rng.IntN(len(offs))]
				if o+1 < len(p) {
					cut := o + 2 + rng.IntN(int(p[o+1])+1)
					if cut < len(p) {
						p = p[:cut]
					}
				}
			}
			name += "truncate-in-tlv,"
		case 4:
			for j := rng.IntN(40); j >= 0; j-- {
				p = append(p, uint8(rng.IntN(256)))
			}
			name += "append,"
		case 5:
			if len(offs) > 0 {
				o := offs[rng.IntN(len(offs))]
				if o+1 < len(p) {
					p[o+1] = []uint8{0, 1, 2, 3, 4, 5, 6, 11, 14, 15, 16, 17, 31, 32, 33, 254, 255, uint8(rng.IntN(256))}[rng.IntN(18)]
				}
			}
			name += "tlv-length,"
		case 6:
			if len(offs) > 0 {
				o := offs[rng.IntN(len(offs))]
				if o < len(p) {
					p[o] = knownTLVTypes[rng.IntN(len(knownTLVTypes))]
				}
			}
			name += "tlv-type,"
		case 7:
			if len(p) > 7 {
				p[7] = []uint8{PDUP2PHello, PDUL2LSP, PDUL2CSNP, PDUL2PSNP, PDUL1LSP, PDUL2LANHello, PDUL1LANHello, 0x18, 0x24, 0x26, 0, 0xff}[rng.IntN(12)]
			}
			name += "pdu-type,"
		case 8:
			t := knownTLVTypes[rng.IntN(len(knownTLVTypes))]
			l := []int{0, 1, 2, 4, 5, 15, 16, 17, 255}[rng.IntN(9)]
			have := rng.IntN(l + 1)
			if rng.IntN(2) == 0 {
				have = l
			}
			x := []byte{t, uint8(l)}
			for j := 0; j < have; j++ {
				x = append(x, uint8(rng.IntN(256)))
			}
			if len(offs) > 0 && rng.IntN(2) == 0 {
				o := offs[rng.IntN(len(offs))]
				if o <= len(p) {
					p = append(append(append([]byte{}, p[:o]...), x...), p[o:]...)
				}
			} else {
				p = append(p, x...)
			}
			name += "insert-tlv,"
		case 9:
			if len(offs) > 0 {
				o := offs[rng.IntN(len(offs))]
				if o+2 <= len(p) {
					e := o + 2 + int(p[o+1])
					if e <= len(p) {
						p = append(p, p[o:e]...)
					}
				}
			}
			name += "dup-tlv,"
		case 10:
			other := corpus[rng.IntN(len(corpus))]
			a, b := rng.IntN(len(p)+1), rng.IntN(len(other)+1)
			p = append(append([]byte{}, p[:a]...), other[b:]...)
			name += "splice,"
		case 11:
			if len(p) > 12 {
				// length fields of the fixed part
				o := 11 + rng.IntN(10)
				if o < len(p) {
					p[o] = uint8(rng.IntN(256))
				}
			}
			name += "fixed-field,"
		}
	}
	return p, strings.TrimSuffix(name, ",")
}

// ---------------------------------------------------------------- big local LSP

// BigLSPCase: a server with many interfaces / addresses / Up adjacencies; the local LSP and the
// hellos it really emits are judged (C30).
type BigLSPCase struct {
	Ifaces int `json:"ifaces"`        // number of interfaces
	Extra  int `json:"extra"`         // additional addresses per interface
	Up     int `json:"up"`            // interfaces with an Up neighbor
	Dup    int `json:"dup,omitempty"` // addresses per interface that are configured twice (as /31 or /24 and as /32)
}

func RunBigLSP(c BigLSPCase, emit func(Sent)) {
	cfg := Cfg{Sys: dutSys, Area: dutArea, NoStart: true}
	for i := 0; i < c.Ifaces; i++ {
		cfg.Ifaces = append(cfg.Ifaces, IfCfg{Name: fmt.Sprintf("eth%d", i), Hello: 10, Hold: 30, Metric: 10, Index: uint64(10 + i), Net: 0x0a000000 + uint32(i)<<8, Extra: c.Extra, Dup: c.Dup})
	}
	h, err := New(cfg)
	if err != nil {
		return
	}
	h.AllSent = emit
	Guard(func() {
		for _, ic := range cfg.Ifaces {
			h.Event(ic.Name, false)
		}
		for _, ic := range cfg.Ifaces {
			h.Event(ic.Name, true)
		}
		for i, ic := range cfg.Ifaces {
			if i >= c.Up {
				break
			}
			mac := [6]byte{0xde, 0xad, 0, 0, 1, uint8(i)}
			sys := SysID{0x77, 0, 0, 0, 0, uint8(i)}
			h.Feed(ic.Name, mac, NbrHello(sys, ic.Net, 30, &ThreeWay{State: AdjDown, HasExt: true, ExtCircuit: 70}))
			h.Feed(ic.Name, mac, NbrHello(sys, ic.Net, 30, &ThreeWay{State: AdjInit, HasExt: true, ExtCircuit: 70, HasNeighbor: true, NbrSys: dutSys, HasNbrCircID: true, NbrCircuit: uint32(ic.Index)}))
		}
		for server.VerifLSDBTakeRefreshRequest(h.S) {
			server.VerifLSDBRegenerate(h.S)
		}
		server.VerifLSDBSendLSPs(h.S)
		// one hello interval: every interface sends a hello
		h.Advance(10 * time.Second)
		h.Settle(func() string {
			h.mu.Lock()
			defer h.mu.Unlock()
			return fmt.Sprint(h.nseq)
		})
		for _, ic := range cfg.Ifaces {
			h.Event(ic.Name, false)
		}
	})
}

// wireNote names the layout variant of a harness-built PDU (a stable feature for violations).
func wireNote(p *PDU) string {
	if p.Hello != nil {
		if t, ok := Find(p.Hello.TLVs, TLVThreeWay); ok {
			return fmt.Sprintf("three-way-len:%d", len(t.V))
		}
		return "no-three-way"
	}
	n := 0
	for _, t := range p.TLVs() {
		if t.T == TLVLSPEntries {
			n++
		}
	}
	if p.CSNP != nil || p.PSNP != nil {
		return fmt.Sprintf("entries-tlvs:%s", bandOf(n))
	}
	return ""
}

// GenWirePDU builds a well-formed PDU with the independent encoder in layouts bio-rd's decoder
// accepts, including those its own sender never produces: the four RFC 5303 layouts of the
// three-way TLV, TLVs in any order and repeated, several LSP Entries TLVs per SNP, empty TLVs,
// unknown TLVs.
func GenWirePDU(rng *rand.Rand, i int) []byte {
	sys := SysID{0x31, uint8(rng.IntN(256)), uint8(rng.IntN(256)), 0, 0, uint8(i)}
	var nb [7]byte
	copy(nb[:], sysY[:])
	areas := func() TLV {
		var as [][]byte
		k := rng.IntN(4)
		if rng.IntN(4) == 0 {
			k = rng.IntN(13) // more than the three of ISO 10589's default maximumAreaAddresses: bio-rd sets no limit
		}
		for ; k > 0; k-- {
			a := make([]byte, 1+rng.IntN(13))
			for j := range a {
				a[j] = uint8(rng.IntN(256))
			}
			as = append(as, a)
		}
		return AreaTLV(as...)
	}
	extras := func() []TLV {
		var out []TLV
		for k := rng.IntN(4); k > 0; k-- {
			switch rng.IntN(7) {
			case 0:
				out = append(out, PaddingTLV(rng.IntN(256)))
			case 1:
				out = append(out, TLV{TLVChecksum, []byte{uint8(rng.IntN(256)), uint8(rng.IntN(256))}})
			case 2:
				out = append(out, TLV{TLVISNeighbor, nbrBMAC[:]})
			case 3:
				out = append(out, HostnameTLV(strings.Repeat("n", rng.IntN(40))))
			case 4:
				out = append(out, TLV{uint8(200 + rng.IntN(30)), make([]byte, rng.IntN(60))})
			case 5:
				out = append(out, ProtocolsTLV([]uint8{0xcc, 0x8e, 0x81}[:rng.IntN(4)]...))
			case 6:
				out = append(out, IPIfAddrTLV(specAddrs(rng.IntN(6))...))
			}
		}
		return out
	}
	shuffle := func(t []TLV) []TLV {
		rng.Shuffle(len(t), func(a, b int) { t[a], t[b] = t[b], t[a] })
		return t
	}
	switch i % 4 {
	case 0, 1:
		tw := ThreeWay{State: uint8(rng.IntN(3)), ExtCircuit: rng.Uint32(), NbrSys: SysID{9, 8, 7, 6, 5, uint8(rng.IntN(256))}, NbrCircuit: rng.Uint32()}
		switch rng.IntN(4) {
		case 1:
			tw.HasExt = true
		case 2:
			tw.HasExt, tw.HasNeighbor = true, true
		case 3:
			tw.HasExt, tw.HasNeighbor, tw.HasNbrCircID = true, true, true
		}
		tlvs := []TLV{tw.TLV(), ProtocolsTLV(0xcc, 0x8e), IPIfAddrTLV(specAddrs(rng.IntN(4))...), areas()}
		tlvs = append(tlvs, extras()...)
		if rng.IntN(2) == 0 {
			tlvs = shuffle(tlvs)
		}
		return BuildHello(Hello{CircuitType: uint8(1 + rng.IntN(3)), Sys: sys, Hold: uint16(rng.IntN(65536)), LocalCircuit: uint8(rng.IntN(256)), TLVs: tlvs})
	case 2:
		tlvs := []TLV{areas(), ProtocolsTLV(0xcc, 0x8e), IPIfAddrTLV(specAddrs(rng.IntN(5))...),
			ExtISReachTLV(ExtISNbr{ID: nb, Metric: uint32(rng.IntN(1 << 24))}, ExtISNbr{ID: nb, Metric: 6, Sub: []SubTLV{{4, make([]byte, 8)}, {6, []byte{10, 0, 0, 1}}}}),
			ExtISReachTLV(),
			ExtIPReachTLV(ExtIPPfx{Metric: 1, Len: 0}, ExtIPPfx{Metric: rng.Uint32(), Len: 32, Addr: rng.Uint32()}, ExtIPPfx{Metric: 3, Len: 9, Addr: 0x0a800000, Down: true, HasSub: true, Sub: []SubTLV{{1, []byte{0, 0, 0, 1}}}}),
			TLV{TLVTERouterID, []byte{1, 1, 1, 1}}, TLV{TLVISReach, append([]byte{0, 10, 0x80, 0x80, 0x80}, nb[:]...)}}
		tlvs = append(tlvs, extras()...)
		return BuildLSP(LSP{Lifetime: uint16(rng.IntN(65536)), ID: MkLSPID(sys, uint8(rng.IntN(3)), uint8(rng.IntN(3))), Seq: rng.Uint32(), TypeBlock: uint8(rng.IntN(256)), TLVs: shuffle(tlvs)})
	default:
		es := specEntries(PDUSpec{N: rng.IntN(80)})
		// several LSP Entries TLVs of irregular sizes (0..15 entries each)
		var tlvs []TLV
		for len(es) > 0 {
			n := rng.IntN(16)
			if n > len(es) {
				n = len(es)
			}
			if n == 0 {
				tlvs = append(tlvs, TLV{TLVLSPEntries, nil})
			} else {
				tlvs = append(tlvs, LSPEntriesTLVs(es[:n])...)
			}
			es = es[n:]
		}
		if rng.IntN(4) == 0 {
			tlvs = append(tlvs, TLV{uint8(200 + rng.IntN(30)), make([]byte, rng.IntN(20))})
		}
		if i%8 == 3 {
			return BuildCSNP(CSNP{Source: SourceID(sys), Start: MkLSPID(SysID{}, 0, uint8(rng.IntN(2))), End: LSPID{0xff, 0xff, 0xff, 0xff, 0xff, 0xff, 0xff, uint8(255 - rng.IntN(2))}, TLVs: tlvs})
		}
		return BuildPSNP(PSNP{Source: SourceID(sys), TLVs: tlvs})
	}
}
