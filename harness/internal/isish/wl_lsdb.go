package isish

import (
	"fmt"
	"math/rand/v2"
	"sort"
	"strings"

	"github.com/bio-routing/bio-rd/protocols/isis/server"
)

// LSDB update process workload (C32). The server is not started: the harness runs the bodies of
// the LSDB goroutines (aging tick, LSP/PSNP/CSNP transmission, local LSP regeneration) itself
// through the verif hooks, one at a time, which is one legal schedule of the real goroutines and
// makes every step deterministic.

type SNPEnt struct {
	ID   int    `json:"id"` // index into the LSP ID pool (bulk: offset)
	Seq  uint32 `json:"seq"`
	Life uint16 `json:"life"`
}

type LSDBStep struct {
	K     string   `json:"k"`              // lsp | csnp | psnp | tick | regen | send-lsp | send-psnp | send-csnp
	Defer bool     `json:"defer,omitempty"` // lsp with the local LSP ID: the regeneration it triggers runs later (slow updater goroutine)
	From  int      `json:"from,omitempty"` // 0 = eth0 (neighbor A), 1 = eth1 (neighbor B)
	ID    int      `json:"id,omitempty"`   // lsp: index into the pool (0 = own LSP)
	Seq   uint32   `json:"seq,omitempty"`
	Life  uint16   `json:"life,omitempty"`
	Ents  []SNPEnt `json:"ents,omitempty"`
	Start int      `json:"start,omitempty"` // csnp range: pool index, -1 = 00..00
	End   int      `json:"end,omitempty"`   // csnp range: pool index, -1 = ff..ff
	N     int      `json:"n,omitempty"`     // tick count
}

type LSDBCase struct {
	Third string     `json:"third"` // eth2: "none" (no neighbor) | "init" (a neighbor in Init)
	Bulk  int        `json:"bulk,omitempty"`
	Steps []LSDBStep `json:"steps"`
}

var (
	sysX = SysID{0x11, 0x11, 0x11, 0x00, 0x00, 0x01}
	sysY = SysID{0x22, 0x22, 0x22, 0x00, 0x00, 0x02}
	sysZ = SysID{0x33, 0x33, 0x33, 0x00, 0x00, 0x03}
)

// pool of LSP IDs; index 0 is the local LSP
func lsdbPool() []LSPID {
	return []LSPID{MkLSPID(dutSys, 0, 0), MkLSPID(sysX, 0, 0), MkLSPID(sysX, 0, 1), MkLSPID(sysY, 0, 0), MkLSPID(sysZ, 1, 0)}
}

func bulkID(i int) LSPID {
	return MkLSPID(SysID{0x44, 0x44, 0x00, 0x00, uint8(i >> 8), uint8(i)}, 0, 0)
}

func GenLSDBCase(rng *rand.Rand, steps int) LSDBCase {
	c := LSDBCase{Third: "none"}
	if rng.IntN(3) == 0 {
		c.Third = "init"
	}
	lives := []uint16{1, 2, 300, 1200}
	life := func() uint16 {
		if rng.IntN(20) == 0 {
			return 0
		}
		return lives[rng.IntN(len(lives))]
	}
	seq := func() uint32 {
		if rng.IntN(20) == 0 {
			return 0
		}
		return uint32(1 + rng.IntN(5))
	}
	np := len(lsdbPool())
	for i := 0; i < steps; i++ {
		x := rng.IntN(100)
		switch {
		case x < 35:
			id := 1 + rng.IntN(np-1)
			if rng.IntN(100) < 15 {
				id = 0
			}
			st := LSDBStep{K: "lsp", From: rng.IntN(2), ID: id, Seq: seq(), Life: life()}
			if id == 0 {
				// copies of the local LSP: wider sequence range, often several before the updater runs
				if rng.IntN(20) != 0 {
					st.Seq = uint32(1 + rng.IntN(12))
				}
				st.Defer = rng.IntN(2) == 0
			}
			c.Steps = append(c.Steps, st)
		case x < 47:
			s := LSDBStep{K: "csnp", From: rng.IntN(2), Start: -1, End: -1}
			for id := 0; id < np; id++ {
				if rng.IntN(10) < 6 {
					s.Ents = append(s.Ents, SNPEnt{ID: id, Seq: seq(), Life: life()})
				}
			}
			if rng.IntN(10) < 3 {
				s.Start = rng.IntN(np)
				s.End = s.Start + rng.IntN(np-s.Start)
				var in []SNPEnt
				for _, e := range s.Ents {
					if e.ID >= s.Start && e.ID <= s.End {
						in = append(in, e)
					}
				}
				s.Ents = in
			}
			c.Steps = append(c.Steps, s)
		case x < 59:
			s := LSDBStep{K: "psnp", From: rng.IntN(2)}
			for _, id := range rng.Perm(np)[:1+rng.IntN(3)] {
				s.Ents = append(s.Ents, SNPEnt{ID: id, Seq: seq(), Life: life()})
			}
			c.Steps = append(c.Steps, s)
		case x < 74:
			n := 1
			switch y := rng.IntN(100); {
			case y < 50:
			case y < 70:
				n = 2
			case y < 88:
				n = 10
			case y < 96:
				n = 300
			default:
				n = 1500
			}
			c.Steps = append(c.Steps, LSDBStep{K: "tick", N: n})
		case x < 77:
			c.Steps = append(c.Steps, LSDBStep{K: "regen"})
		case x < 84:
			c.Steps = append(c.Steps, LSDBStep{K: "send-lsp"})
		case x < 92:
			c.Steps = append(c.Steps, LSDBStep{K: "send-psnp"})
		default:
			c.Steps = append(c.Steps, LSDBStep{K: "send-csnp"})
		}
	}
	return c
}

// GenLSDBBulk: n distinct LSPs received on eth0, then every kind of transmission round.
func GenLSDBBulk(n int) LSDBCase {
	return LSDBCase{Third: "none", Bulk: n, Steps: []LSDBStep{{K: "send-psnp"}, {K: "send-csnp"}, {K: "send-lsp"}, {K: "tick", N: 1}, {K: "send-csnp"}}}
}

func foreignLSP(id LSPID, seq uint32, life uint16) []byte {
	var nb [7]byte
	copy(nb[:], sysY[:])
	return BuildLSP(LSP{Lifetime: life, ID: id, Seq: seq, TypeBlock: 3, TLVs: []TLV{
		AreaTLV(dutArea), ProtocolsTLV(0xcc, 0x8e), HostnameTLV("r-" + id.String()[:4]),
		ExtISReachTLV(ExtISNbr{ID: nb, Metric: 10, Sub: []SubTLV{{6, []byte{10, 9, 9, 1}}}}),
		ExtIPReachTLV(ExtIPPfx{Metric: 10, Len: 24, Addr: 0x0a090900}),
	}})
}

type lsdbModelEntry struct {
	seq  uint32
	life uint16
}

func rel(ours uint32, theirs uint32) string {
	switch {
	case ours == theirs:
		return "same"
	case ours > theirs:
		return "ours-newer"
	}
	return "ours-older"
}

func bandOf(n int) string {
	switch {
	case n <= 15:
		return "<=15"
	case n <= 91:
		return "16-91"
	}
	return ">91"
}

// RunLSDB executes one LSDB history.
func RunLSDB(c LSDBCase, out *Outcome, emit func(Sent)) {
	cfg := Cfg{Sys: dutSys, Area: dutArea, NoStart: true, Ifaces: []IfCfg{
		{Name: "eth0", Hello: 10, Hold: 30, Metric: 10, Index: 5, Net: 0x0a000000},
		{Name: "eth1", Hello: 10, Hold: 30, Metric: 20, Index: 9, Net: 0x0a000100},
		{Name: "eth2", Hello: 10, Hold: 30, Metric: 30, Index: 12, Net: 0x0a000200},
	}}
	h, err := New(cfg)
	if err != nil {
		out.Inconclusive = "server construction failed: " + err.Error()
		return
	}
	h.AllSent = emit
	// release the interface goroutines and buffers when the history is over
	defer Guard(func() {
		for _, n := range []string{"eth0", "eth1", "eth2"} {
			h.Event(n, false)
		}
	})
	pool := lsdbPool()
	own := pool[0]
	ifn := []string{"eth0", "eth1"}
	macs := [][6]byte{nbrAMAC, nbrBMAC}
	syss := []SysID{nbrASys, nbrBSys}
	nets := []uint32{0x0a000000, 0x0a000100}
	circ := []uint32{5, 9}
	upIf := map[string]bool{"eth0": true, "eth1": true}
	stepNo := -1
	panicked := false
	guard := func(op string, f func()) bool {
		if pi, txt := Guard(f); pi != nil {
			out.Violate("panic", map[string]string{"op": op, "panic": pi.Msg, "at": pi.At}, "step %d: %s panicked: %s", stepNo, op, txt)
			panicked = true
			return false
		}
		return true
	}
	// setup: device state for all interfaces, links up, neighbors A and B Up
	if !guard("setup", func() {
		for _, n := range []string{"eth0", "eth1", "eth2"} {
			h.Event(n, false)
		}
		for _, n := range []string{"eth0", "eth1", "eth2"} {
			h.Event(n, true)
		}
		for i := range ifn {
			h.Feed(ifn[i], macs[i], NbrHello(syss[i], nets[i], 30, &ThreeWay{State: AdjDown, HasExt: true, ExtCircuit: 70}))
			h.Feed(ifn[i], macs[i], NbrHello(syss[i], nets[i], 30, &ThreeWay{State: AdjInit, HasExt: true, ExtCircuit: 70, HasNeighbor: true, NbrSys: dutSys, HasNbrCircID: true, NbrCircuit: circ[i]}))
		}
		if c.Third == "init" {
			h.Feed("eth2", [6]byte{0xde, 0xad, 0xbe, 0xef, 0x12, 0x36}, NbrHello(sysZ, 0x0a000200, 30, &ThreeWay{State: AdjDown, HasExt: true, ExtCircuit: 70}))
		}
	}) {
		return
	}
	ups := 0
	for _, a := range h.Adjs() {
		if a.State == AdjUp {
			ups++
		}
	}
	if ups != 2 {
		out.Inconclusive = fmt.Sprintf("setup: %d adjacencies Up, want 2", ups)
		return
	}
	var maxOwnRx uint32
	lastOwnSeq := uint32(0)
	regen := func(when string) bool {
		ran := false
		for server.VerifLSDBTakeRefreshRequest(h.S) {
			if !guard("regenerate", func() { server.VerifLSDBRegenerate(h.S) }) {
				return ran
			}
			ran = true
			out.Count("regenerations", 1)
			db := h.LSDB()
			o, ok := db[own]
			if !ok {
				out.Violate("own-refresh", map[string]string{"when": when}, "step %d: the local LSP is missing right after its regeneration", stepNo)
				continue
			}
			if o.Seq <= maxOwnRx {
				out.Violate("own-seq", map[string]string{"when": "regeneration"},
					"step %d: local LSP regenerated (%s) with sequence number %d although a copy of it with sequence number %d had been received from the network", stepNo, when, o.Seq, maxOwnRx)
			}
			if o.Seq <= lastOwnSeq {
				out.Violate("own-seq", map[string]string{"when": "regeneration-not-increasing"}, "step %d: local LSP regenerated with sequence number %d, previous own sequence number %d", stepNo, o.Seq, lastOwnSeq)
			}
			lastOwnSeq = o.Seq
		}
		return ran
	}
	regen("setup")
	h.Take()
	// newer copies of the local LSP whose regeneration was deferred
	var deferredNewer uint32
	settleOwn := func(when string) {
		regen(when)
		if panicked || deferredNewer == 0 {
			return
		}
		o, ok := h.LSDB()[own]
		if !ok || o.Seq <= deferredNewer {
			out.Violate("own-seq", map[string]string{"when": "after-reception"},
				"step %d: copies of the local LSP up to sequence number %d were received; after the updater ran every regeneration the server requested (%s) the LSDB holds the local LSP with sequence number %d (present %v), want > %d", stepNo, deferredNewer, when, o.Seq, ok, deferredNewer)
		}
		deferredNewer = 0
	}
	defer func() {
		if !panicked {
			settleOwn("end of history")
		}
	}()
	out.Count("histories", 1)

	model := map[LSPID]*lsdbModelEntry{}
	kinds := map[string]bool{}

	checkModelList := func(after string, lst []LSPState) {
		find := func(id LSPID) (LSPState, bool) {
			for _, e := range lst {
				if e.ID == id {
					return e, true
				}
			}
			return LSPState{}, false
		}
		for id, m := range model {
			r, ok := find(id)
			if !ok {
				out.Violate("lsdb-seq", map[string]string{"after": after, "what": "missing"},
					"step %d: LSP %s (sequence number %d, %d s to live in the model) is not in the LSDB", stepNo, id, m.seq, m.life)
				delete(model, id)
				continue
			}
			if r.Seq != m.seq {
				out.Violate("lsdb-seq", map[string]string{"after": after, "what": "sequence"},
					"step %d: LSDB holds %s with sequence number %d, the highest accepted so far is %d", stepNo, id, r.Seq, m.seq)
				m.seq = r.Seq
			}
			if r.Lifetime != m.life {
				out.Violate("aging", map[string]string{"after": after},
					"step %d: LSDB holds %s with remaining lifetime %d, model %d", stepNo, id, r.Lifetime, m.life)
				m.life = r.Lifetime
			}
		}
		for _, r := range lst {
			if _, ok := model[r.ID]; !ok && r.ID != own && r.Seq > 0 && r.Lifetime > 0 {
				out.Violate("lsdb-seq", map[string]string{"after": after, "what": "unexpected"},
					"step %d: LSDB holds %s with sequence number %d and remaining lifetime %d; no such LSP was accepted or it should have aged out", stepNo, r.ID, r.Seq, r.Lifetime)
				model[r.ID] = &lsdbModelEntry{r.Seq, r.Lifetime}
			}
		}
		out.Evals++
	}
	checkModel := func(after string) { checkModelList(after, h.LSDBList()) }
	// sync model for ids whose handling the statement leaves open
	syncID := func(id LSPID) {
		if id == own {
			return
		}
		db := h.LSDB()
		if r, ok := db[id]; ok && r.Seq > 0 && r.Lifetime > 0 {
			model[id] = &lsdbModelEntry{r.Seq, r.Lifetime}
		} else {
			delete(model, id)
		}
	}
	want := func(clause, relName, flag string, got, exp bool, id LSPID, ifName, ctx string) {
		out.Count("flag_checks", 1)
		if got != exp {
			out.Violate(clause, map[string]string{"rel": relName, "flag": flag},
				"step %d: %s: %s flag of %s on %s is %v, the update process requires %v", stepNo, ctx, strings.ToUpper(flag[:3]), id, ifName, got, exp)
		}
	}
	frame := func(pdu string, pre, post map[LSPID]LSPState, skipIf string, skipIDs map[LSPID]bool) {
		for id, p := range pre {
			q, ok := post[id]
			if !ok || skipIDs[id] {
				continue
			}
			for ifName := range upIf {
				if ifName == skipIf {
					continue
				}
				if p.SRM.Has(ifName) != q.SRM.Has(ifName) || p.SSN.Has(ifName) != q.SSN.Has(ifName) {
					out.Violate("flags-frame", map[string]string{"pdu": pdu},
						"step %d: a %s received on %s changed the flags of %s on %s: SRM %v -> %v, SSN %v -> %v", stepNo, pdu, skipIf, id, ifName, p.SRM.Has(ifName), q.SRM.Has(ifName), p.SSN.Has(ifName), q.SSN.Has(ifName))
				}
			}
		}
	}
	entID := func(e SNPEnt) LSPID {
		if c.Bulk > 0 && e.ID >= 100 {
			return bulkID(e.ID - 100)
		}
		return pool[e.ID%len(pool)]
	}
	snpEntryRules := func(clause string, from string, ents []SNPEnt, pre, post map[LSPID]LSPState, ctx string) map[LSPID]bool {
		touched := map[LSPID]bool{}
		seen := map[LSPID]bool{}
		for _, e := range ents {
			id := entID(e)
			if seen[id] {
				continue
			}
			seen[id] = true
			touched[id] = true
			p, had := pre[id]
			q, has := post[id]
			if !had {
				if e.Seq > 0 && e.Life > 0 {
					out.Count("flag_checks", 1)
					if !has || !q.SSN.Has(from) {
						out.Violate(clause, map[string]string{"rel": "unknown", "flag": "ssn-from"},
							"step %d: %s: entry %s seq %d describes an LSP we do not hold; it must be requested (SSN on %s), LSDB entry present: %v", stepNo, ctx, id, e.Seq, from, has)
					}
				}
				continue
			}
			if !has {
				continue
			}
			r := rel(p.Seq, e.Seq)
			c2 := fmt.Sprintf("%s entry %s seq %d (LSDB seq %d)", ctx, id, e.Seq, p.Seq)
			switch r {
			case "same":
				want(clause, r, "srm-from", q.SRM.Has(from), false, id, from, c2)
			case "ours-newer":
				want(clause, r, "srm-from", q.SRM.Has(from), true, id, from, c2)
				want(clause, r, "ssn-from", q.SSN.Has(from), false, id, from, c2)
			case "ours-older":
				want(clause, r, "ssn-from", q.SSN.Has(from), true, id, from, c2)
				want(clause, r, "srm-from", q.SRM.Has(from), false, id, from, c2)
			}
		}
		return touched
	}
	parseSent := func(kind uint8) map[string][]*PDU {
		res := map[string][]*PDU{}
		for _, s := range h.Take() {
			if len(s.Raw) < 5 || s.Raw[4] != kind {
				continue
			}
			p, perr := Parse(s.Raw)
			if perr != nil {
				res[s.Iface] = append(res[s.Iface], nil)
				out.Count("malformed_sent", 1)
				continue
			}
			res[s.Iface] = append(res[s.Iface], p)
		}
		return res
	}
	setKey := func(m map[string]bool) string {
		var s []string
		for k := range m {
			s = append(s, k)
		}
		sort.Strings(s)
		if len(s) > 12 {
			return fmt.Sprintf("%d entries: %s ...", len(s), strings.Join(s[:12], " "))
		}
		return strings.Join(s, " ")
	}

	// bulk preload
	if c.Bulk > 0 {
		for i := 0; i < c.Bulk && !panicked; i++ {
			id := bulkID(i)
			guard("lsp", func() { h.Feed("eth0", nbrAMAC, foreignLSP(id, 3, 1200)) })
			model[id] = &lsdbModelEntry{3, 1200}
		}
		if panicked {
			return
		}
		checkModel("lsp")
		out.Count("bulk_histories", 1)
	}

	for si, s := range c.Steps {
		stepNo = si
		if panicked {
			return
		}
		kinds[s.K] = true
		from := ifn[s.From%2]
		mac := macs[s.From%2]
		pre := h.LSDB()
		switch s.K {
		case "lsp":
			id := pool[s.ID%len(pool)]
			pdu := foreignLSP(id, s.Seq, s.Life)
			if !guard("lsp", func() { h.Feed(from, mac, pdu) }) {
				return
			}
			out.Count("lsp_receptions", 1)
			p, had := pre[id]
			post := h.LSDB()
			if id == own {
				out.Count("own_copies_received", 1)
				if s.Seq > maxOwnRx {
					maxOwnRx = s.Seq
				}
				newer := !had || s.Seq > p.Seq
				if s.Defer {
					// the updater goroutine has not run yet when the next PDU arrives
					out.Count("own_copies_deferred", 1)
					if newer && s.Seq > deferredNewer {
						deferredNewer = s.Seq
					}
					break
				}
				settleOwn("own-copy-received")
				if panicked {
					return
				}
				if newer {
					o, ok := h.LSDB()[own]
					out.Count("own_newer_copies", 1)
					if !ok || o.Seq <= s.Seq {
						out.Violate("own-seq", map[string]string{"when": "after-reception"},
							"step %d: received a copy of the local LSP with sequence number %d (own: %d) on %s; after running every regeneration the server requested the LSDB holds the local LSP with sequence number %d (present %v), want > %d", stepNo, s.Seq, p.Seq, from, o.Seq, ok, s.Seq)
					}
				}
				break
			}
			if s.Seq == 0 || s.Life == 0 {
				// sequence number 0 and purges: the statement is silent; only "never decrease" is kept
				if q, ok := post[id]; had && ok && q.Seq < p.Seq {
					out.Violate("lsdb-seq", map[string]string{"after": "lsp", "what": "decrease"}, "step %d: sequence number of %s decreased %d -> %d", stepNo, id, p.Seq, q.Seq)
				}
				syncID(id)
				break
			}
			q, has := post[id]
			r := "newer"
			if had {
				switch {
				case s.Seq == p.Seq:
					r = "same"
				case s.Seq < p.Seq:
					r = "older"
				}
			}
			out.Count("lsp_"+r, 1)
			kinds["lsp-"+r] = true
			if r == "newer" {
				model[id] = &lsdbModelEntry{s.Seq, s.Life}
			}
			checkModel("lsp")
			if !has {
				break
			}
			ctx := fmt.Sprintf("%s LSP %s seq %d received on %s (LSDB had seq %d, present %v)", r, id, s.Seq, from, p.Seq, had)
			switch r {
			case "newer":
				for j := range upIf {
					if j != from {
						want("flags-lsp", r, "srm-others", q.SRM.Has(j), true, id, j, ctx)
					}
				}
				want("flags-lsp", r, "srm-from", q.SRM.Has(from), false, id, from, ctx)
				want("flags-lsp", r, "ssn-from", q.SSN.Has(from), true, id, from, ctx)
				frame("LSP", pre, post, from, map[LSPID]bool{id: true})
			case "same":
				want("flags-lsp", r, "srm-from", q.SRM.Has(from), false, id, from, ctx)
				want("flags-lsp", r, "ssn-from", q.SSN.Has(from), true, id, from, ctx)
				frame("LSP", pre, post, from, nil)
			case "older":
				want("flags-lsp", r, "srm-from", q.SRM.Has(from), true, id, from, ctx)
				want("flags-lsp", r, "ssn-from", q.SSN.Has(from), false, id, from, ctx)
				frame("LSP", pre, post, from, nil)
			}
		case "csnp", "psnp":
			var es []SNPEntry
			for _, e := range s.Ents {
				es = append(es, SNPEntry{Lifetime: e.Life, ID: entID(e), Seq: e.Seq, Checksum: 0x1234})
			}
			var pdu []byte
			start, end := LSPID{}, LSPID{0xff, 0xff, 0xff, 0xff, 0xff, 0xff, 0xff, 0xff}
			if s.K == "csnp" {
				if s.Start >= 0 {
					start = pool[s.Start%len(pool)]
				}
				if s.End >= 0 {
					end = pool[s.End%len(pool)]
				}
				sort.Slice(es, func(i, j int) bool { return es[i].ID.Less(es[j].ID) })
				pdu = BuildCSNP(CSNP{Source: SourceID(syss[s.From%2]), Start: start, End: end, TLVs: LSPEntriesTLVs(es)})
			} else {
				pdu = BuildPSNP(PSNP{Source: SourceID(syss[s.From%2]), TLVs: LSPEntriesTLVs(es)})
			}
			if !guard(s.K, func() { h.Feed(from, mac, pdu) }) {
				return
			}
			out.Count(s.K+"_receptions", 1)
			post := h.LSDB()
			ctx := fmt.Sprintf("%s received on %s", strings.ToUpper(s.K), from)
			touched := snpEntryRules("flags-"+s.K, from, s.Ents, pre, post, ctx)
			if s.K == "csnp" {
				listed := map[LSPID]bool{}
				for _, e := range es {
					listed[e.ID] = true
				}
				for id, p := range pre {
					if listed[id] || p.Seq == 0 || p.Lifetime == 0 || id.Less(start) || end.Less(id) {
						continue
					}
					touched[id] = true
					if q, ok := post[id]; ok {
						want("flags-csnp", "not-listed", "srm-from", q.SRM.Has(from), true, id, from, fmt.Sprintf("%s with range [%s, %s] does not list %s", ctx, start, end, id))
					}
				}
				// bio-rd's range test ignores the LSP number: LSPs of the same system just outside the
				// range may get SRM as well; harmless, not judged
				for id := range pre {
					if !listed[id] && (id.Less(start) || end.Less(id)) {
						touched[id] = true
					}
				}
			}
			// flags on the other circuits never change through a SNP
			frame(strings.ToUpper(s.K), pre, post, from, nil)
			// flags on the receiving circuit of entries the SNP does not mention stay as they were
			for id, p := range pre {
				if q, ok := post[id]; ok && !touched[id] {
					if p.SRM.Has(from) != q.SRM.Has(from) || p.SSN.Has(from) != q.SSN.Has(from) {
						out.Violate("flags-frame", map[string]string{"pdu": strings.ToUpper(s.K) + "-unmentioned"},
							"step %d: %s changed the flags of %s, which it does not mention: SRM %v -> %v, SSN %v -> %v", stepNo, ctx, id, p.SRM.Has(from), q.SRM.Has(from), p.SSN.Has(from), q.SSN.Has(from))
					}
				}
			}
			// sequence numbers never change through a SNP
			for id, p := range pre {
				if q, ok := post[id]; ok && q.Seq != p.Seq {
					out.Violate("lsdb-seq", map[string]string{"after": s.K, "what": "sequence"}, "step %d: %s changed the sequence number of %s: %d -> %d", stepNo, ctx, id, p.Seq, q.Seq)
				}
			}
			checkModel(s.K)
		case "regen":
			settleOwn("updater ran")
			if panicked {
				return
			}
		case "tick":
			for t := 0; t < s.N && !panicked; t++ {
				if !guard("age-tick", func() { server.VerifLSDBAgeTick(h.S) }) {
					return
				}
				for id, m := range model {
					if m.life <= 1 {
						delete(model, id)
					} else {
						m.life--
					}
				}
				settleOwn("refresh")
				if panicked {
					return
				}
				lst := h.LSDBList()
				out.Count("ticks", 1)
				var o LSPState
				ok := false
				for _, e := range lst {
					if e.ID == own {
						o, ok = e, true
					}
				}
				if !ok || o.Lifetime == 0 {
					out.Violate("own-refresh", map[string]string{"when": "tick"},
						"step %d tick %d: after the aging tick and the regeneration the server requested, the local LSP is present=%v with remaining lifetime %d", stepNo, t+1, ok, o.Lifetime)
				}
				checkModelList("tick", lst)
			}
		case "send-lsp":
			if !guard("send-lsp", func() { server.VerifLSDBSendLSPs(h.S) }) {
				return
			}
			sent := parseSent(PDUL2LSP)
			out.Count("lsp_rounds", 1)
			for j := range upIf {
				exp, got := map[string]bool{}, map[string]bool{}
				for id, p := range pre {
					if p.SRM.Has(j) {
						exp[fmt.Sprintf("%s#%d", id, p.Seq)] = true
					}
				}
				bad := false
				for _, p := range sent[j] {
					if p == nil {
						bad = true
						continue
					}
					got[fmt.Sprintf("%s#%d", p.LSP.ID, p.LSP.Seq)] = true
					out.Count("lsps_flooded", 1)
				}
				if bad || setKey(exp) != setKey(got) {
					out.Violate("send-lsp", map[string]string{"malformed": bstr(bad)},
						"step %d: LSP transmission on %s: SRM flags call for {%s}, sent {%s} (malformed frames: %v)", stepNo, j, setKey(exp), setKey(got), bad)
				}
			}
		case "send-psnp":
			if !guard("send-psnp", func() { server.VerifLSDBSendPSNPs(h.S) }) {
				return
			}
			sent := parseSent(PDUL2PSNP)
			out.Count("psnp_rounds", 1)
			for j := range upIf {
				exp, got := map[string]bool{}, map[string]bool{}
				for id, p := range pre {
					if p.SSN.Has(j) {
						exp[fmt.Sprintf("%s#%d", id, p.Seq)] = true
					}
				}
				bad := false
				for _, p := range sent[j] {
					if p == nil {
						bad = true
						continue
					}
					es, _ := Entries(p.PSNP.TLVs)
					for _, e := range es {
						got[fmt.Sprintf("%s#%d", e.ID, e.Seq)] = true
						out.Count("psnp_entries_sent", 1)
					}
				}
				if bad || setKey(exp) != setKey(got) {
					out.Violate("send-psnp", map[string]string{"entries": bandOf(len(exp)), "malformed": bstr(bad)},
						"step %d: PSNP transmission on %s: SSN flags call for acknowledging {%s}, the PSNPs sent list {%s} (malformed PSNPs: %v)", stepNo, j, setKey(exp), setKey(got), bad)
				}
			}
			for id, q := range h.LSDB() {
				for j := range upIf {
					if q.SSN.Has(j) {
						out.Violate("send-psnp", map[string]string{"entries": "ssn-not-cleared"}, "step %d: SSN flag of %s on %s still set after the PSNP round", stepNo, id, j)
					}
				}
			}
		case "send-csnp":
			if !guard("send-csnp", func() { server.VerifLSDBSendCSNPs(h.S) }) {
				return
			}
			sent := parseSent(PDUL2CSNP)
			out.Count("csnp_rounds", 1)
			for j := range upIf {
				must, may, got := map[string]bool{}, map[string]bool{}, map[string]bool{}
				for id, p := range pre {
					k := fmt.Sprintf("%s#%d", id, p.Seq)
					may[k] = true
					if p.Seq > 0 && p.Lifetime > 0 {
						must[k] = true
					}
				}
				bad := ""
				ps := sent[j]
				for i, p := range ps {
					if p == nil {
						bad = "malformed CSNP"
						continue
					}
					es, _ := Entries(p.CSNP.TLVs)
					for _, e := range es {
						got[fmt.Sprintf("%s#%d", e.ID, e.Seq)] = true
						if e.ID.Less(p.CSNP.Start) || p.CSNP.End.Less(e.ID) {
							bad = fmt.Sprintf("entry %s outside the range [%s, %s] of its CSNP", e.ID, p.CSNP.Start, p.CSNP.End)
						}
					}
					if i == 0 && p.CSNP.Start != (LSPID{}) {
						bad = "first CSNP does not start at 0000.0000.0000.00-00"
					}
					if i == len(ps)-1 && p.CSNP.End != (LSPID{0xff, 0xff, 0xff, 0xff, 0xff, 0xff, 0xff, 0xff}) {
						bad = "last CSNP does not end at ffff.ffff.ffff.ff-ff"
					}
					out.Count("csnps_sent", 1)
				}
				missing, extra := 0, 0
				for k := range must {
					if !got[k] {
						missing++
					}
				}
				for k := range got {
					if !may[k] {
						extra++
					}
				}
				if bad != "" || missing > 0 || extra > 0 || (len(ps) == 0 && len(must) > 0) {
					out.Violate("send-csnp", map[string]string{"entries": bandOf(len(pre))},
						"step %d: CSNP transmission on %s: LSDB holds {%s}; the %d CSNP(s) sent describe {%s}: %d LSDB entries missing, %d entries not in the LSDB; %s", stepNo, j, setKey(may), len(ps), setKey(got), missing, extra, bad)
				}
			}
		}
	}
	if !panicked {
		nt := 0
		for _, k := range []string{"lsp-newer", "lsp-same", "lsp-older", "csnp", "psnp", "tick", "send-lsp", "send-psnp", "send-csnp"} {
			if kinds[k] {
				nt++
			}
		}
		if nt >= 8 {
			out.Nontrivial = append(out.Nontrivial, fmt.Sprintf("%+v", c))
		}
	}
}
