package isish

import (
	"fmt"
	"math/rand/v2"
	"sort"
	"strings"
	"time"
)

// Adjacency workload (C31): hello sequences from one or two neighbors with varying three-way TLV
// contents and holding times, interleaved with mock clock advances.

type AdjEvent struct {
	K    string `json:"k"`              // hello | adv
	N    int    `json:"n,omitempty"`    // neighbor index (hello)
	TW   string `json:"tw,omitempty"`   // three-way TLV kind (hello)
	Hold uint16 `json:"hold,omitempty"` // holding time (hello)
	Sec  int    `json:"sec,omitempty"`  // seconds (adv)
	// CT is the circuit type of the hello: 0/2 = level 2 only, 3 = level 1 and 2. Area names the area the
	// neighbor is in at that time: "" = ours, "other" = another one of the same length, "short" = a
	// shorter one. The level 2 adjacency does not depend on either.
	CT   uint8  `json:"ct,omitempty"`
	Area string `json:"area,omitempty"`
}

type AdjCase struct {
	Nbrs      int        `json:"nbrs"`       // 1 or 2
	SameIface bool       `json:"same_iface"` // second neighbor on eth0 as well (else eth1)
	Events    []AdjEvent `json:"events"`
	Tail      string     `json:"tail"` // none | short (hold+3 s of silence) | long (hold+126 s)
	// Level1: the interfaces are configured for level 1 in addition to level 2
	Level1 bool `json:"level1,omitempty"`
}

// three-way TLV kinds
var twKinds = []string{"absent", "down", "init-us", "up-us", "down-us", "other", "wrong-circuit", "state-only"}

func GenAdjCase(rng *rand.Rand) AdjCase {
	c := AdjCase{Nbrs: 1 + rng.IntN(2)}
	if c.Nbrs == 2 {
		c.SameIface = rng.IntN(4) == 0
	}
	n := 10 + rng.IntN(16)
	for i := 0; i < n; i++ {
		if rng.IntN(100) < 35 {
			x := rng.IntN(100)
			sec := 1
			switch {
			case x < 45:
			case x < 85:
				sec = 2 + rng.IntN(3)
			case x < 95:
				sec = 6 + rng.IntN(5)
			default:
				sec = 31 + rng.IntN(5)
			}
			c.Events = append(c.Events, AdjEvent{K: "adv", Sec: sec})
			continue
		}
		e := AdjEvent{K: "hello", N: rng.IntN(c.Nbrs)}
		x := rng.IntN(100)
		switch {
		case x < 30:
			e.TW = "init-us"
		case x < 58:
			e.TW = "up-us"
		case x < 63:
			e.TW = "down-us"
		case x < 76:
			e.TW = "down"
		case x < 84:
			e.TW = "other"
		case x < 91:
			e.TW = "wrong-circuit"
		case x < 96:
			e.TW = "absent"
		default:
			e.TW = "state-only"
		}
		switch rng.IntN(4) {
		case 0:
			e.Hold = uint16(1 + rng.IntN(3))
		case 1:
			e.Hold = uint16(25 + rng.IntN(6))
		default:
			e.Hold = uint16(1 + rng.IntN(30))
		}
		c.Events = append(c.Events, e)
	}
	switch x := rng.IntN(100); {
	case x < 10:
		c.Tail = "long"
	case x < 40:
		c.Tail = "short"
	default:
		c.Tail = "none"
	}
	// levels and areas (drawn last: the histories above are the same as without them)
	c.Level1 = rng.IntN(2) == 0
	otherArea := func() string { return []string{"other", "other", "short"}[rng.IntN(3)] }
	switch mode := rng.IntN(10); {
	case mode < 3: // level 2 hellos of a neighbor in our area
	case mode < 5: // an inter-area neighbor speaking both levels
		a := otherArea()
		for i := range c.Events {
			if c.Events[i].K == "hello" {
				c.Events[i].CT, c.Events[i].Area = 3, a
			}
		}
	case mode < 8: // a neighbor speaking both levels that is moved into / out of our area during the history
		a, cut, flip := otherArea(), rng.IntN(len(c.Events)), rng.IntN(2) == 0
		for i := range c.Events {
			if c.Events[i].K == "hello" {
				c.Events[i].CT = 3
				if (i >= cut) != flip {
					c.Events[i].Area = a
				}
			}
		}
	default:
		for i := range c.Events {
			if c.Events[i].K == "hello" {
				if rng.IntN(2) == 0 {
					c.Events[i].CT = 3
				}
				if rng.IntN(2) == 0 {
					c.Events[i].Area = otherArea()
				}
			}
		}
	}
	return c
}

func areaOf(kind string) []byte {
	switch kind {
	case "other":
		return []byte{0x49, 0x00, 0x02}
	case "short":
		return []byte{0x47}
	}
	return dutArea
}

type adjNbr struct {
	iface   string
	net     uint32
	mac     [6]byte
	sys     SysID
	circuit uint32 // our circuit id on that interface

	helloSeen  bool
	maxHold    uint16
	lastHold   uint16
	downBy     time.Time // at or after this time the adjacency must not be Up
	keepUntil  time.Time // before this time (holding time of the last hello bio-rd accepts) an Up adjacency must not go Down by itself
	unlisted   bool      // a hello since the last Up observation carried a three-way TLV that does not list us
	goneBy     time.Time // at or after this time the neighbor must be absent
	listed     bool      // a hello since the last non-Up observation listed us
	listedBy   string
	everUp     bool
	state      string // last observed
	lastTW     string
	lastLevel  string
	transition int
}

func (n *adjNbr) threeWay(kind string) *ThreeWay {
	tw := &ThreeWay{State: AdjInit, HasExt: true, ExtCircuit: 77}
	switch kind {
	case "absent":
		return nil
	case "down":
		tw.State = AdjDown
	case "state-only":
		tw.State, tw.HasExt = AdjDown, false
	case "init-us", "up-us", "down-us":
		tw.HasNeighbor, tw.NbrSys, tw.HasNbrCircID, tw.NbrCircuit = true, dutSys, true, n.circuit
		if kind == "up-us" {
			tw.State = AdjUp
		}
		if kind == "down-us" {
			tw.State = AdjDown
		}
	case "other":
		tw.HasNeighbor, tw.NbrSys, tw.HasNbrCircID, tw.NbrCircuit = true, othSys, true, n.circuit
	case "wrong-circuit":
		tw.HasNeighbor, tw.NbrSys, tw.HasNbrCircID, tw.NbrCircuit = true, dutSys, true, n.circuit+1
	}
	return tw
}

func listsUs(kind string) bool { return kind == "init-us" || kind == "up-us" || kind == "down-us" }

// RunAdj executes one adjacency history.
func RunAdj(c AdjCase, out *Outcome, emit func(Sent)) {
	cfg := Cfg{Sys: dutSys, Area: dutArea, Ifaces: []IfCfg{
		{Name: "eth0", Hello: 10, Hold: 30, Metric: 10, Index: 5, Net: 0x0a000000, Level1: c.Level1},
		{Name: "eth1", Hello: 10, Hold: 30, Metric: 20, Index: 9, Net: 0x0a000100, Level1: c.Level1},
	}}
	h, err := New(cfg)
	if err != nil {
		out.Inconclusive = "server construction failed: " + err.Error()
		return
	}
	h.AllSent = emit
	nbrs := []*adjNbr{{iface: "eth0", net: 0x0a000000, mac: nbrAMAC, sys: nbrASys, circuit: 5, state: "absent"}}
	if c.Nbrs == 2 {
		b := &adjNbr{iface: "eth1", net: 0x0a000100, mac: nbrBMAC, sys: nbrBSys, circuit: 9, state: "absent"}
		if c.SameIface {
			b.iface, b.net, b.circuit = "eth0", 0x0a000000, 5
		}
		nbrs = append(nbrs, b)
	}
	read := func() string {
		seq, _, _, _ := h.OwnLSP()
		return fmt.Sprintf("%s|%d", AdjKey(h.Adjs()), seq)
	}
	defer func() {
		h.Settle(read)
		if h.Unsettled > 0 && out.Inconclusive == "" {
			out.Inconclusive = "state did not become stable within the real-time cap"
		}
		// release the interface goroutines and buffers when the history is over
		h.AllSent = nil
		Guard(func() { h.Event("eth0", false); h.Event("eth1", false) })
		h.Settle(read)
	}()
	// both interfaces get their device state (link down) before the first one comes up: a local LSP
	// built while an interface has no device state at all crashes the server (reported by C33)
	if pi, txt := Guard(func() {
		h.Event("eth0", false)
		h.Event("eth1", false)
		h.Event("eth0", true)
		h.Event("eth1", true)
	}); pi != nil {
		out.Violate("panic", map[string]string{"op": "link-up", "panic": pi.Msg, "at": pi.At}, "link up panicked: %s", txt)
		return
	}
	h.Settle(read)
	out.Count("histories", 1)

	upSet := func(adjs []Adj) []string {
		var s []string
		for _, a := range adjs {
			if a.State == AdjUp {
				s = append(s, fmt.Sprintf("%x00", a.Sys[:]))
			}
		}
		sort.Strings(s)
		return s
	}
	lastSeq, _, _, _ := h.OwnLSP()
	prevUp := upSet(h.Adjs())
	step := 0
	hadUp, leftUp := false, false

	// observe runs every monitor; ev describes the event that just happened
	ilevels := "l2"
	if c.Level1 {
		ilevels = "l1l2"
	}
	hlevel := "" // level and area of the hello just processed
	observe := func(ev string, hn *adjNbr, helloKind string, before string) bool {
		now := h.Clock.Now()
		adjs := h.Adjs()
		out.Evals++
		for _, n := range nbrs {
			st := "absent"
			for _, a := range adjs {
				if a.Iface == n.iface && a.MAC == n.mac {
					st = StateName(a.State)
				}
			}
			if st != n.state {
				n.transition++
			}
			if st == "up" {
				hadUp = true
				n.everUp = true
				out.Count("up_observations", 1)
				if !n.listed {
					out.Violate("up-without-listing", map[string]string{"tw": n.lastTW},
						"step %d (%s): neighbor %s on %s is Up although no hello since its last non-Up state listed this system and circuit %d in the three-way TLV (last hello: %s)", step, ev, n.sys, n.iface, n.circuit, n.lastTW)
				}
			} else {
				if n.state == "up" {
					leftUp = true
				}
				n.listed = false
			}
			if hn == n && before == "up" && helloKind != "absent" && !listsUs(helloKind) {
				out.Count("not_listed_while_up", 1)
				if st == "up" {
					out.Violate("down-on-not-listed", map[string]string{"tw": helloKind},
						"step %d: adjacency with %s on %s was Up; a hello whose three-way TLV (%s) does not list this system and circuit was received; the adjacency is still Up", step, n.sys, n.iface, helloKind)
				}
			}
			if hn == n && helloKind != "absent" {
				// a well-formed hello (all mandatory TLVs, three-way TLV present) was just processed
				out.Count("valid_hellos_"+hlevel, 1)
				if st == "absent" {
					out.Violate("hello-ignored", map[string]string{"tw": helloKind, "hello": hlevel, "iface_levels": ilevels},
						"step %d (%s): a well-formed point-to-point hello of %s on %s (interface levels %s, hello %s) was processed but GetAdjacencies does not list the neighbor in any state: the handshake cannot start", step, ev, n.sys, n.iface, ilevels, hlevel)
				}
				if before != "absent" && listsUs(helloKind) {
					out.Count("listing_hellos_to_known_neighbor_"+hlevel, 1)
					if st != "up" {
						out.Violate("not-up-after-listing", map[string]string{"tw": helloKind, "before": before, "hello": hlevel, "iface_levels": ilevels},
							"step %d (%s): neighbor %s on %s was known (state %s); its hello lists this system and circuit %d in the three-way TLV; the adjacency is %s, want up (interface levels %s, hello %s)", step, ev, n.sys, n.iface, before, n.circuit, st, ilevels, hlevel)
					}
				}
			}
			if n.state == "up" && st != "up" {
				// it went Down: only a hello that does not list us or the holding time may cause that
				out.Count("up_to_notup_transitions", 1)
				expired := !now.Before(n.keepUntil)
				if !n.unlisted && !expired {
					k := "adv"
					if hn != nil {
						k = "hello"
					}
					out.Violate("down-without-cause", map[string]string{"event": k, "last_hello": n.lastLevel, "iface_levels": ilevels},
						"step %d (%s): adjacency with %s on %s left Up (now %s) although every hello since it came Up listed this system and circuit and the holding time of the last hello (%d s) ends at %s (interface levels %s, last hello %s)", step, ev, n.sys, n.iface, st, n.lastHold, n.keepUntil.Format("15:04:05"), ilevels, n.lastLevel)
				}
			}
			if st == "up" {
				if hn == nil && now.Before(n.keepUntil) && !n.unlisted {
					out.Count("kept_up_within_hold_checks", 1)
				}
			}
			if st != "up" {
				n.unlisted = false
			}
			if n.helloSeen {
				if !now.Before(n.downBy) {
					out.Count("hold_expiry_checks", 1)
					if st == "up" {
						out.Violate("hold-expiry", map[string]string{"lowered": bstr(n.lastHold < n.maxHold)},
							"step %d (%s): no hello from %s on %s for more than the holding time of its last hello + 2 s (holding time %d s, largest earlier one %d s, now %s, limit %s) but the adjacency is still Up", step, ev, n.sys, n.iface, n.lastHold, n.maxHold, now.Format("15:04:05"), n.downBy.Format("15:04:05"))
					}
				}
				if !now.Before(n.goneBy) {
					out.Count("disappear_checks", 1)
					if st != "absent" {
						out.Violate("disappear", map[string]string{"state": st, "ever_up": bstr(n.everUp)},
							"step %d (%s): neighbor %s on %s sent no hello for holding time + 120 s + 5 s (now %s, limit %s) but is still listed by GetAdjacencies in state %s (ever Up: %v)", step, ev, n.sys, n.iface, now.Format("15:04:05"), n.goneBy.Format("15:04:05"), st, n.everUp)
					} else {
						out.Count("disappeared", 1)
					}
				}
			}
			n.state = st
		}
		// local LSP
		seq, lspNbrs, ok, lerr := h.OwnLSP()
		nowUp := upSet(adjs)
		if lerr != nil {
			out.Violate("lsp-malformed", map[string]string{}, "step %d (%s): local LSP: %v", step, ev, lerr)
		} else if ok && seq > lastSeq {
			out.Count("lsp_regenerations_checked", 1)
			good := eqStrs(lspNbrs, nowUp)
			if !good && hn == nil {
				// timers may have changed the Up set while the LSP was being built
				good = eqStrs(lspNbrs, prevUp) || (subset(inter(prevUp, nowUp), lspNbrs) && subset(lspNbrs, union(prevUp, nowUp)))
			}
			if !good {
				k := "adv"
				if hn != nil {
					k = "hello"
				}
				out.Violate("lsp-up-set", map[string]string{"event": k},
					"step %d (%s): local LSP regenerated (sequence number %d -> %d); its extended IS reachability lists %v, the Up adjacencies are %v (before the event: %v)", step, ev, lastSeq, seq, lspNbrs, nowUp, prevUp)
			}
		}
		if ok {
			lastSeq = seq
		}
		prevUp = nowUp
		return true
	}

	advance := func(sec int, why string) {
		for i := 0; i < sec; i++ {
			h.Advance(time.Second)
			h.Settle(read)
			step++
			observe(why, nil, "", "")
			out.Count("clock_steps", 1)
		}
	}

	for _, e := range c.Events {
		switch e.K {
		case "adv":
			advance(e.Sec, fmt.Sprintf("clock +1s of %d", e.Sec))
		case "hello":
			n := nbrs[e.N%len(nbrs)]
			ct := e.CT
			if ct == 0 {
				ct = 2
			}
			pdu := NbrHelloLevel(n.sys, n.net, e.Hold, n.threeWay(e.TW), ct, areaOf(e.Area))
			hlevel = fmt.Sprintf("ct%d/area-%s", ct, map[string]string{"": "same", "other": "other", "short": "other"}[e.Area])
			n.lastLevel = hlevel
			before := n.state
			var ferr error
			if pi, txt := Guard(func() { ferr = h.Feed(n.iface, n.mac, pdu) }); pi != nil {
				out.Violate("panic", map[string]string{"op": "hello", "tw": e.TW, "panic": pi.Msg, "at": pi.At}, "step %d: processing a hello (%s) panicked: %s", step, e.TW, txt)
				return
			}
			_ = ferr
			now := h.Clock.Now()
			n.helloSeen = true
			if e.Hold > n.maxHold {
				n.maxHold = e.Hold
			}
			dBy := now.Add(time.Duration(e.Hold)*time.Second + 2*time.Second)
			gBy := now.Add(time.Duration(e.Hold)*time.Second + 125*time.Second)
			if e.TW != "absent" {
				// the holding time of the LAST hello counts, also when it is shorter than an earlier one
				n.downBy, n.goneBy, n.lastHold = dBy, gBy, e.Hold
				n.keepUntil = now.Add(time.Duration(e.Hold) * time.Second)
				if !listsUs(e.TW) {
					n.unlisted = true
				}
			} else {
				// bio-rd rejects hellos without three-way TLV (its timer keeps the previous value); the
				// statement does not say which holding time applies then: the later limit is used
				if dBy.After(n.downBy) {
					n.downBy = dBy
				}
				if gBy.After(n.goneBy) {
					n.goneBy = gBy
				}
			}
			if listsUs(e.TW) {
				n.listed, n.listedBy = true, e.TW
			}
			n.lastTW = e.TW
			if e.TW != "absent" && e.Hold < n.maxHold {
				out.Count("hellos_lowering_hold", 1)
			}
			// a hello that changes the set of Up adjacencies makes the server request a new local
			// LSP: wait for the updater goroutine to have stored it (logical wait, capped)
			if !eqStrs(upSet(h.Adjs()), prevUp) {
				deadline := time.Now().Add(20 * time.Second)
				for {
					if seq, _, ok, _ := h.OwnLSP(); ok && seq > lastSeq {
						break
					}
					if time.Now().After(deadline) {
						h.Unsettled++
						break
					}
					time.Sleep(200 * time.Microsecond)
				}
			}
			h.Settle(read)
			step++
			out.Count("hellos", 1)
			out.Count("hello_"+e.TW, 1)
			observe(fmt.Sprintf("hello %s hold %d from %s", e.TW, e.Hold, n.sys), n, e.TW, before)
		}
	}
	switch c.Tail {
	case "short", "long":
		var mh uint16
		for _, n := range nbrs {
			if n.maxHold > mh {
				mh = n.maxHold
			}
		}
		sec := int(mh) + 3
		if c.Tail == "long" {
			sec = int(mh) + 126
		}
		advance(sec, "silence")
		out.Count("tail_"+c.Tail, 1)
	}
	if hadUp && leftUp {
		out.Nontrivial = append(out.Nontrivial, adjCaseKey(c))
	}
}

func adjCaseKey(c AdjCase) string {
	var b strings.Builder
	fmt.Fprintf(&b, "%d%v%s%v", c.Nbrs, c.SameIface, c.Tail, c.Level1)
	for _, e := range c.Events {
		fmt.Fprintf(&b, "|%s%d%s%d%d/%d%s", e.K, e.N, e.TW, e.Hold, e.Sec, e.CT, e.Area)
	}
	return b.String()
}

func eqStrs(a, b []string) bool {
	if len(a) != len(b) {
		return false
	}
	for i := range a {
		if a[i] != b[i] {
			return false
		}
	}
	return true
}

func subset(a, b []string) bool { // multiset a ⊆ b
	m := map[string]int{}
	for _, x := range b {
		m[x]++
	}
	for _, x := range a {
		if m[x] == 0 {
			return false
		}
		m[x]--
	}
	return true
}

func inter(a, b []string) []string {
	m := map[string]int{}
	for _, x := range b {
		m[x]++
	}
	var out []string
	for _, x := range a {
		if m[x] > 0 {
			m[x]--
			out = append(out, x)
		}
	}
	return out
}

func union(a, b []string) []string {
	out := append([]string{}, a...)
	rest := append([]string{}, b...)
	for _, x := range a {
		for i, y := range rest {
			if x == y {
				rest = append(rest[:i], rest[i+1:]...)
				break
			}
		}
	}
	return append(out, rest...)
}
