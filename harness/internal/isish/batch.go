package isish

import (
	"bufio"
	"bytes"
	"encoding/json"
	"fmt"
	"os"
	"os/exec"
	"path/filepath"
	"strconv"
	"strings"
	"sync"
	"syscall"
	"time"

	"verifharness/internal/vf"
)

// Child batch protocol. A batch (list of cases) is written to disk, a child process (the same
// binary, VERIF_ISISH_CHILD=<dir>) runs the cases one after the other, appends the index of the
// case it is about to run to <dir>/progress (unbuffered) and one JSON line per finished case to
// <dir>/results. When the child dies the parent attributes the death to the last index in
// progress, records it as a crash, and restarts a child behind it. A watchdog kills children that
// run too long; the case that was running is re-run alone and only counts as a hang if it hangs
// again, otherwise the run is inconclusive.

const childEnv = "VERIF_ISISH_CHILD"

// Case is one unit of work for a child.
type Case struct {
	Kind string          `json:"kind"`
	Raw  json.RawMessage `json:"raw"`
}

// V is a violation reported by a case.
type V struct {
	Clause   string            `json:"clause"`
	Features map[string]string `json:"features,omitempty"`
	Detail   string            `json:"detail"`
	// Case, when set, replaces the case the violation is attributed to (a smaller witness)
	Case *Case `json:"case,omitempty"`
}

// Outcome is what running one case produced.
type Outcome struct {
	Idx          int              `json:"i"`
	V            []V              `json:"v,omitempty"`
	Counts       map[string]int   `json:"c,omitempty"`
	Maxs         map[string]int64 `json:"m,omitempty"`
	Nontrivial   []string         `json:"n,omitempty"`
	Evals        int              `json:"e,omitempty"`
	Sample       any              `json:"s,omitempty"`
	Inconclusive string           `json:"inc,omitempty"`
	// Poisoned (child side only): the case left goroutines of the code under test stuck for good; the child
	// reports the outcome and exits, the parent runs the remaining cases in a fresh process
	Poisoned bool `json:"-"`
	// filled by the parent
	Crash *CrashInfo `json:"-"`
	// Rerun: the batch watchdog fired while this case was running; it was run again alone and completed
	Rerun bool `json:"-"`
}

func (o *Outcome) Count(k string, n int) {
	if o.Counts == nil {
		o.Counts = map[string]int{}
	}
	o.Counts[k] += n
}
func (o *Outcome) Max(k string, n int64) {
	if o.Maxs == nil {
		o.Maxs = map[string]int64{}
	}
	if n > o.Maxs[k] {
		o.Maxs[k] = n
	}
}
func (o *Outcome) Violate(clause string, f map[string]string, format string, a ...any) {
	o.V = append(o.V, V{Clause: clause, Features: f, Detail: fmt.Sprintf(format, a...)})
}

type CrashInfo struct {
	Hang   bool
	Panic  PanicInfo
	Stderr string
}

// RunFn runs one case inside a child.
type RunFn func(c Case, out *Outcome)

// IsChild reports whether this process is a batch child.
func IsChild() bool { return os.Getenv(childEnv) != "" }

// ChildMain runs the batch named by the environment and exits.
func ChildMain(fn RunFn) {
	dir := os.Getenv(childEnv)
	raw, err := os.ReadFile(filepath.Join(dir, "batch.json"))
	if err != nil {
		fmt.Fprintln(os.Stderr, "child:", err)
		os.Exit(4)
	}
	var b struct {
		Idx   []int  `json:"idx"`
		Cases []Case `json:"cases"`
	}
	if err := json.Unmarshal(raw, &b); err != nil {
		fmt.Fprintln(os.Stderr, "child:", err)
		os.Exit(4)
	}
	prog, err := os.OpenFile(filepath.Join(dir, "progress"), os.O_CREATE|os.O_WRONLY|os.O_APPEND, 0o644)
	if err != nil {
		os.Exit(4)
	}
	resf, err := os.OpenFile(filepath.Join(dir, "results"), os.O_CREATE|os.O_WRONLY|os.O_APPEND, 0o644)
	if err != nil {
		os.Exit(4)
	}
	w := bufio.NewWriterSize(resf, 1<<16)
	last := time.Now()
	for k, c := range b.Cases {
		prog.WriteString(strconv.Itoa(b.Idx[k]) + "\n")
		out := Outcome{Idx: b.Idx[k]}
		fn(c, &out)
		line, err := json.Marshal(&out)
		if err != nil {
			line, _ = json.Marshal(&Outcome{Idx: b.Idx[k], Inconclusive: "result not serialisable: " + err.Error()})
		}
		w.Write(line)
		w.WriteByte('\n')
		if time.Since(last) > 200*time.Millisecond || len(out.V) > 0 {
			w.Flush()
			last = time.Now()
		}
		if out.Poisoned && k+1 < len(b.Cases) {
			// no "done" marker: the parent sees a child that ended between two cases and starts a new one
			w.Flush()
			resf.Close()
			os.Exit(0)
		}
	}
	w.Flush()
	resf.Close()
	prog.WriteString("done\n")
	os.Exit(0)
}

// Opts control RunBatch.
type Opts struct {
	Workers   int
	BatchSize int           // cases per child start (default: spread evenly, at most 400)
	Timeout   time.Duration // wall-clock budget of one child (default 4 min)
	Scratch   string        // scratch root (default /tmp/isis)
}

// RunBatch runs all cases in children and returns one Outcome per case (same order).
func RunBatch(cases []Case, o Opts) []Outcome {
	if o.Workers <= 0 {
		o.Workers = 8
	}
	if o.Timeout == 0 {
		o.Timeout = 4 * time.Minute
	}
	if o.Scratch == "" {
		o.Scratch = "/tmp/isis"
	}
	if o.BatchSize <= 0 {
		o.BatchSize = (len(cases) + o.Workers - 1) / o.Workers
		if o.BatchSize > 400 {
			o.BatchSize = 400
		}
		if o.BatchSize < 1 {
			o.BatchSize = 1
		}
	}
	root := filepath.Join(o.Scratch, fmt.Sprintf("b%d-%d", os.Getpid(), time.Now().UnixNano()))
	os.MkdirAll(root, 0o755)
	defer os.RemoveAll(root)

	res := make([]Outcome, len(cases))
	done := make([]bool, len(cases))
	var mu sync.Mutex
	type job struct{ idx []int }
	var jobs []job
	for s := 0; s < len(cases); s += o.BatchSize {
		e := s + o.BatchSize
		if e > len(cases) {
			e = len(cases)
		}
		var idx []int
		for i := s; i < e; i++ {
			idx = append(idx, i)
		}
		jobs = append(jobs, job{idx})
	}
	ch := make(chan job, len(jobs))
	for _, j := range jobs {
		ch <- j
	}
	close(ch)
	var wg sync.WaitGroup
	var nchild int
	for w := 0; w < o.Workers; w++ {
		wg.Add(1)
		go func(w int) {
			defer wg.Done()
			for j := range ch {
				idx := j.idx
				for len(idx) > 0 {
					mu.Lock()
					nchild++
					dir := filepath.Join(root, fmt.Sprintf("c%d", nchild))
					mu.Unlock()
					outs, crashed, ci := runChild(dir, cases, idx, o.Timeout)
					mu.Lock()
					for _, oc := range outs {
						if oc.Idx >= 0 && oc.Idx < len(res) {
							res[oc.Idx] = oc
							done[oc.Idx] = true
						}
					}
					mu.Unlock()
					if crashed >= 0 && ci != nil && ci.Hang && len(idx) > 1 {
						// re-run the suspect alone: only a repeated hang counts
						mu.Lock()
						nchild++
						d2 := filepath.Join(root, fmt.Sprintf("c%d", nchild))
						mu.Unlock()
						o2, c2, ci2 := runChild(d2, cases, []int{crashed}, o.Timeout)
						mu.Lock()
						if c2 >= 0 && ci2 != nil {
							res[crashed] = Outcome{Idx: crashed, Crash: ci2}
						} else if len(o2) == 1 {
							// the batch watchdog is a wall-clock limit: a case that runs to completion alone was slow, not
							// stuck, and its outcome stands
							res[crashed] = o2[0]
							res[crashed].Rerun = true
						}
						done[crashed] = true
						mu.Unlock()
					} else if crashed >= 0 {
						mu.Lock()
						res[crashed] = Outcome{Idx: crashed, Crash: ci}
						done[crashed] = true
						mu.Unlock()
					}
					var rest []int
					mu.Lock()
					for _, i := range idx {
						if !done[i] {
							rest = append(rest, i)
						}
					}
					mu.Unlock()
					if crashed < 0 && len(rest) > 0 && len(rest) == len(idx) {
						// child failed without touching a case: infrastructure problem
						mu.Lock()
						for _, i := range rest {
							res[i] = Outcome{Idx: i, Inconclusive: "child process failed before running the case: " + ci.Stderr}
							done[i] = true
						}
						mu.Unlock()
						rest = nil
					}
					idx = rest
				}
			}
		}(w)
	}
	wg.Wait()
	return res
}

// runChild runs idx in one child. It returns the outcomes the child reported, the index of the
// case the child died on (-1 if it finished) and a description of the death.
func runChild(dir string, cases []Case, idx []int, timeout time.Duration) ([]Outcome, int, *CrashInfo) {
	os.MkdirAll(dir, 0o755)
	b := struct {
		Idx   []int  `json:"idx"`
		Cases []Case `json:"cases"`
	}{Idx: idx}
	for _, i := range idx {
		b.Cases = append(b.Cases, cases[i])
	}
	raw, _ := json.Marshal(&b)
	if err := os.WriteFile(filepath.Join(dir, "batch.json"), raw, 0o644); err != nil {
		return nil, -1, &CrashInfo{Stderr: err.Error()}
	}
	exe, _ := os.Executable()
	cmd := exec.Command(exe)
	cmd.Env = append(os.Environ(), childEnv+"="+dir, "GOTRACEBACK=all")
	var stderr bytes.Buffer
	cmd.Stderr = &limitWriter{b: &stderr, max: 1 << 20}
	cmd.Stdout = nil
	cmd.SysProcAttr = &syscall.SysProcAttr{Pdeathsig: syscall.SIGKILL}
	if err := cmd.Start(); err != nil {
		return nil, -1, &CrashInfo{Stderr: err.Error()}
	}
	waitCh := make(chan error, 1)
	go func() { waitCh <- cmd.Wait() }()
	hang := false
	var werr error
	select {
	case werr = <-waitCh:
	case <-time.After(timeout):
		hang = true
		cmd.Process.Signal(syscall.SIGQUIT)
		select {
		case werr = <-waitCh:
		case <-time.After(10 * time.Second):
			cmd.Process.Kill()
			werr = <-waitCh
		}
	}
	var outs []Outcome
	if f, err := os.Open(filepath.Join(dir, "results")); err == nil {
		sc := bufio.NewScanner(f)
		sc.Buffer(make([]byte, 1<<20), 1<<28)
		for sc.Scan() {
			var oc Outcome
			if json.Unmarshal(sc.Bytes(), &oc) == nil {
				outs = append(outs, oc)
			}
		}
		f.Close()
	}
	praw, _ := os.ReadFile(filepath.Join(dir, "progress"))
	lines := strings.Fields(string(praw))
	finished := len(lines) > 0 && lines[len(lines)-1] == "done"
	if werr == nil && finished && !hang {
		return outs, -1, nil
	}
	se := stderr.String()
	ci := &CrashInfo{Hang: hang, Stderr: tail(se, 6000)}
	if len(lines) == 0 || finished {
		ci.Stderr = fmt.Sprintf("exit: %v; %s", werr, ci.Stderr)
		return outs, -1, ci
	}
	crashed, err := strconv.Atoi(lines[len(lines)-1])
	if err != nil {
		return outs, -1, ci
	}
	// a result for the last started case means the child died between cases: nothing to blame
	for _, oc := range outs {
		if oc.Idx == crashed {
			return outs, -1, ci
		}
	}
	if !hang {
		msg := ""
		for _, l := range strings.Split(se, "\n") {
			if strings.HasPrefix(l, "panic: ") || strings.HasPrefix(l, "fatal error: ") {
				msg = l
				break
			}
		}
		st := se
		if i := strings.Index(se, msg); msg != "" && i >= 0 {
			st = se[i:]
		}
		// the first goroutine block after the message is the panicking goroutine
		if i := strings.Index(st, "\ngoroutine "); i >= 0 {
			st = st[i+1:]
			if j := strings.Index(st, "\n\n"); j >= 0 {
				st = st[:j]
			}
		}
		ci.Panic = ClassifyPanic(msg, st)
		if msg == "" {
			ci.Panic.Msg = fmt.Sprintf("child exited: %v", werr)
		}
		ci.Stderr = tail(msg+"\n"+st, 3000)
	}
	return outs, crashed, ci
}

func tail(s string, n int) string {
	if len(s) > n {
		return s[len(s)-n:]
	}
	return s
}

type limitWriter struct {
	b   *bytes.Buffer
	max int
}

func (l *limitWriter) Write(p []byte) (int, error) {
	if l.b.Len() < l.max {
		l.b.Write(p)
	}
	return len(p), nil
}

// Apply feeds the outcomes into the run. crashFeatures (may be nil) supplies features for
// crashes; its "_prefix" entry, if any, is put in front of the clause name instead.
func Apply(r *vf.Run, cases []Case, outs []Outcome, crashFeatures func(c Case) map[string]string) {
	for i, oc := range outs {
		c := cases[i]
		if oc.Crash != nil {
			f := map[string]string{}
			if crashFeatures != nil {
				for k, v := range crashFeatures(c) {
					f[k] = v
				}
			}
			pref := f["_prefix"]
			delete(f, "_prefix")
			if oc.Crash.Hang {
				r.Violate(vf.Violation{Clause: pref + "hang", Features: f, Detail: "case did not finish within the watchdog, twice (batch and alone)\n" + oc.Crash.Stderr, Case: c})
			} else {
				f["panic"] = oc.Crash.Panic.Msg
				f["at"] = oc.Crash.Panic.At
				r.Violate(vf.Violation{Clause: pref + "crash", Features: f, Detail: "the process died while running the case: " + oc.Crash.Stderr, Case: c})
			}
			r.Count("process_fatal_cases", 1)
			continue
		}
		for _, v := range oc.V {
			vc := any(c)
			if v.Case != nil {
				vc = *v.Case
			}
			r.Violate(vf.Violation{Clause: v.Clause, Features: v.Features, Detail: v.Detail, Case: vc})
		}
		for k, n := range oc.Counts {
			r.Count(k, n)
		}
		for k, n := range oc.Maxs {
			r.Max(k, n)
		}
		for _, k := range oc.Nontrivial {
			r.Nontrivial(k)
		}
		r.Eval(oc.Evals)
		if oc.Sample != nil {
			r.Sample(oc.Sample)
		}
		if oc.Rerun {
			r.Count("cases_rerun_alone_after_a_batch_watchdog", 1)
		}
		if oc.Inconclusive != "" {
			r.Count("inconclusive_cases", 1)
			r.Inconclusive(fmt.Sprintf("case %d: %s", i, oc.Inconclusive))
		}
	}
}

// Replay decodes the replay case of a run into a Case.
func ReplayCase(raw json.RawMessage) Case {
	var c Case
	vf.Decode(raw, &c)
	return c
}
