package isish

import (
	"bytes"
	"fmt"
	"runtime"
	"runtime/debug"
	"sort"
	"strings"
	"sync"
	"time"

	bbclock "github.com/benbjohnson/clock"
	bnet "github.com/bio-routing/bio-rd/net"
	"github.com/bio-routing/bio-rd/net/ethernet"
	"github.com/bio-routing/bio-rd/protocols/device"
	"github.com/bio-routing/bio-rd/protocols/isis/packet"
	"github.com/bio-routing/bio-rd/protocols/isis/server"
	"github.com/bio-routing/bio-rd/protocols/isis/types"
	"github.com/bio-routing/bio-rd/util/log"
)

// ---------------------------------------------------------------- logger

type nullLogger struct{}

func (nullLogger) Errorf(string, ...interface{})               {}
func (nullLogger) Infof(string, ...interface{})                {}
func (nullLogger) Debugf(string, ...interface{})               {}
func (nullLogger) Error(string)                                {}
func (nullLogger) Info(string)                                 {}
func (nullLogger) Debug(string)                                {}
func (n nullLogger) WithFields(log.Fields) log.LoggerInterface { return n }
func (n nullLogger) WithError(error) log.LoggerInterface       { return n }

func init() { log.SetLogger(nullLogger{}) }

// ---------------------------------------------------------------- device side

// Dev is a device.DeviceInterface with a chosen interface index.
type Dev struct {
	Index uint64
	Oper  uint8
	Addrs []*bnet.Prefix
}

func (d *Dev) GetIndex() uint64         { return d.Index }
func (d *Dev) GetOperState() uint8      { return d.Oper }
func (d *Dev) GetAddrs() []*bnet.Prefix { return d.Addrs }

// Updater is a mock device.Updater for several interfaces (device.MockServer keeps one client).
type Updater struct {
	mu      sync.Mutex
	clients map[string]device.Client
}

func (u *Updater) Start() error { return nil }
func (u *Updater) Subscribe(c device.Client, name string) {
	u.mu.Lock()
	defer u.mu.Unlock()
	if u.clients == nil {
		u.clients = map[string]device.Client{}
	}
	u.clients[name] = c
}
func (u *Updater) Unsubscribe(c device.Client, name string) {
	u.mu.Lock()
	defer u.mu.Unlock()
	delete(u.clients, name)
}
func (u *Updater) client(name string) device.Client {
	u.mu.Lock()
	defer u.mu.Unlock()
	return u.clients[name]
}

// ---------------------------------------------------------------- ethernet side

// Sent is one frame bio-rd handed to an ethernet interface.
type Sent struct {
	Iface string
	Gen   int // which incarnation of the interface's ethernet handle (1 = first)
	N     int // global sequence number
	Raw   []byte
}

// Eth wraps bio-rd's MockEthernetInterface: same blocking/closing behaviour, plus a synchronous
// record of what was sent and counters for the receive path.
type Eth struct {
	*ethernet.MockEthernetInterface
	h     *H
	name  string
	gen   int
	mu    sync.Mutex
	rxIn  int // RecvPacket calls entered
	rxOut int // RecvPacket calls that returned a packet
	close int
	// fault injection: transmissions number failTx[i] (0 based, counted per handle) fail transiently
	tx       int
	failTx   map[int]bool
	txFailed int
}

// SendFault makes transmissions From..From+Count-1 (0 based, counted per handle) on the Gen-th ethernet
// handle (1 = first) created for an interface fail with an error, the way sendto() fails for a moment
// with ENETDOWN/ENOBUFS while the socket stays open. Every other transmission works.
type SendFault struct {
	Gen   int `json:"gen"`
	From  int `json:"from"`
	Count int `json:"count"`
}

// ErrTransient is what a transmission hit by a SendFault returns.
var ErrTransient = fmt.Errorf("sendto: network is down (injected transient fault)")

func (e *Eth) SendPacket(dst ethernet.MACAddr, pkt []byte) error {
	e.mu.Lock()
	n := e.tx
	e.tx++
	fail := e.failTx[n] && e.close == 0
	if fail {
		delete(e.failTx, n)
		e.txFailed++
	}
	e.mu.Unlock()
	if fail {
		return ErrTransient
	}
	err := e.MockEthernetInterface.SendPacket(dst, pkt)
	if err == nil {
		e.MockEthernetInterface.DrainBuffer()
		e.h.record(e, pkt)
	}
	return err
}

func (e *Eth) RecvPacket() ([]byte, ethernet.MACAddr, error) {
	e.mu.Lock()
	e.rxIn++
	e.mu.Unlock()
	pkt, src, err := e.MockEthernetInterface.RecvPacket()
	if err == nil {
		e.mu.Lock()
		e.rxOut++
		e.mu.Unlock()
	}
	return pkt, src, err
}

func (e *Eth) Close() {
	e.mu.Lock()
	e.close++
	e.mu.Unlock()
	e.MockEthernetInterface.Close()
}

// Rx returns (RecvPacket calls entered, packets handed to the receiver).
func (e *Eth) Rx() (int, int) {
	e.mu.Lock()
	defer e.mu.Unlock()
	return e.rxIn, e.rxOut
}

// TxFaults returns (injected transmission failures that happened, injected failures still pending).
func (e *Eth) TxFaults() (failed, pending int) {
	e.mu.Lock()
	defer e.mu.Unlock()
	return e.txFailed, len(e.failTx)
}

// TxFaultHorizon returns how many further transmissions it takes until the last pending injected failure
// has happened (0 = none pending).
func (e *Eth) TxFaultHorizon() int {
	e.mu.Lock()
	defer e.mu.Unlock()
	hz := 0
	for i := range e.failTx {
		if i+1-e.tx > hz {
			hz = i + 1 - e.tx
		}
	}
	return hz
}

func (e *Eth) Closed() bool {
	e.mu.Lock()
	defer e.mu.Unlock()
	return e.close > 0
}

type factory struct{ h *H }

func (f *factory) New(name string, bpf *ethernet.BPF, llc ethernet.LLC) (ethernet.EthernetInterfaceI, error) {
	h := f.h
	h.mu.Lock()
	defer h.mu.Unlock()
	e := &Eth{MockEthernetInterface: ethernet.NewMockEthernetInterface(), h: h, name: name, gen: len(h.eths[name]) + 1}
	for _, f := range h.SendFaults[name] {
		if f.Gen != e.gen {
			continue
		}
		if e.failTx == nil {
			e.failTx = map[int]bool{}
		}
		for i := 0; i < f.Count; i++ {
			e.failTx[f.From+i] = true
		}
	}
	h.eths[name] = append(h.eths[name], e)
	return e, nil
}

// ---------------------------------------------------------------- harness

type IfCfg struct {
	Name    string `json:"name"`
	Passive bool   `json:"passive,omitempty"`
	Hello   uint16 `json:"hello"`
	Hold    uint16 `json:"hold"`
	Metric  uint32 `json:"metric"`
	Index   uint64 `json:"index"`
	Net     uint32 `json:"net"`             // local /31: Net is the local address, Net|1 the neighbor's
	Extra   int    `json:"extra,omitempty"` // additional /24 addresses on the interface
	Dup     int    `json:"dup,omitempty"`   // the first Dup addresses of the interface are configured a second time as /32
	Level1  bool   `json:"level1,omitempty"` // the interface is configured for Level 1 as well (same timers and metric)
}

type Cfg struct {
	Sys        SysID
	Area       []byte
	Ifaces     []IfCfg
	MockServer bool // use device.MockServer (interface index 0) instead of Updater
	NoStart    bool // do not call Server.Start(): the harness runs the LSDB goroutine bodies itself
	Hostname   string
}

// H is one IS-IS server under test. The mock clock is process global in bio-rd, therefore only
// one H whose clock is advanced may be live at a time in a process.
type H struct {
	Cfg   Cfg
	Clock *bbclock.Mock
	S     *server.Server
	upd   *Updater
	ms    *device.MockServer
	msC   map[string]device.Client

	mu   sync.Mutex
	eths map[string][]*Eth
	sent []Sent
	nseq int
	// AllSent, when non-nil, receives a copy of every frame (for C30)
	AllSent func(Sent)

	// Unsettled counts Settle calls that hit the real-time cap.
	Unsettled int

	// DuringLSPBuild, when non-nil, is called (in the goroutine that builds the local LSP) every time the
	// server asks for the hostname. Set with SetDuringLSPBuild.
	DuringLSPBuild func()

	// SendFaults, set before the first device event, injects transient transmission failures into the
	// ethernet handles created for an interface (keyed by interface name).
	SendFaults map[string][]SendFault
}

func (h *H) record(e *Eth, pkt []byte) {
	h.mu.Lock()
	h.nseq++
	s := Sent{Iface: e.name, Gen: e.gen, N: h.nseq, Raw: append([]byte{}, pkt...)}
	h.sent = append(h.sent, s)
	f := h.AllSent
	h.mu.Unlock()
	if f != nil {
		f(s)
	}
}

// New builds the server in the order the daemon uses: New, Start, AddInterface. Device events
// are delivered afterwards with Up/Down.
func New(cfg Cfg) (*H, error) {
	h := &H{Cfg: cfg, Clock: bbclock.NewMock(), eths: map[string][]*Eth{}, msC: map[string]device.Client{}}
	h.Clock.Set(time.Date(2023, 1, 23, 0, 0, 0, 0, time.UTC))
	server.SetClock(h.Clock)
	var ds device.Updater
	if cfg.MockServer {
		h.ms = &device.MockServer{}
		ds = h.ms
	} else {
		h.upd = &Updater{}
		ds = h.upd
	}
	s, err := server.New([]*types.NET{{AreaID: types.AreaID(cfg.Area), SystemID: types.SystemID(cfg.Sys)}}, ds, 3600)
	if err != nil {
		return nil, err
	}
	h.S = s
	if !cfg.NoStart {
		s.Start()
	}
	s.SetEthernetInterfaceFactory(&factory{h})
	name := cfg.Hostname
	if name == "" {
		name = "dut"
	}
	s.SetHostnameFunc(func() (string, error) {
		// the server asks for the hostname while it builds the local LSP (after it has drawn the
		// sequence number, before it stores the LSP): a harness can make things happen at that point
		h.mu.Lock()
		f := h.DuringLSPBuild
		h.mu.Unlock()
		if f != nil {
			f()
		}
		return name, nil
	})
	for _, ic := range cfg.Ifaces {
		icfg := &server.InterfaceConfig{Name: ic.Name, Passive: ic.Passive, PointToPoint: true,
			Level2: &server.InterfaceLevelConfig{HelloInterval: ic.Hello, HoldingTimer: ic.Hold, Metric: ic.Metric, Passive: ic.Passive}}
		if ic.Level1 {
			icfg.Level1 = &server.InterfaceLevelConfig{HelloInterval: ic.Hello, HoldingTimer: ic.Hold, Metric: ic.Metric, Passive: ic.Passive}
		}
		err := s.AddInterface(icfg)
		if err != nil {
			return nil, err
		}
		if h.ms != nil {
			h.msC[ic.Name] = h.ms.C
		}
	}
	return h, nil
}

func (h *H) ifc(name string) IfCfg {
	for _, ic := range h.Cfg.Ifaces {
		if ic.Name == name {
			return ic
		}
	}
	panic("isish: unknown interface " + name)
}

func (h *H) addrs(ic IfCfg) []*bnet.Prefix {
	ps := []*bnet.Prefix{bnet.NewPfx(bnet.IPv4(ic.Net&^1), 31).Ptr()}
	for i := 0; i < ic.Extra; i++ {
		ps = append(ps, bnet.NewPfx(bnet.IPv4(0xac100001+uint32(ic.Index&0xff)<<16+uint32(i)<<8), 24).Ptr())
	}
	for i, n := 0, len(ps); i < ic.Dup && i < n; i++ {
		ps = append(ps, bnet.NewPfx(ps[i].Addr(), 32).Ptr())
	}
	return ps
}

// CircuitID is the extended local circuit id bio-rd uses on the interface.
func (h *H) CircuitID(name string) uint32 {
	if h.ms != nil {
		return 0
	}
	return uint32(h.ifc(name).Index)
}

// Event delivers a link up / link down device event for the interface.
func (h *H) Event(name string, up bool) {
	ic := h.ifc(name)
	if h.ms != nil {
		h.ms.C = h.msC[name]
		if up {
			h.ms.DeviceUpEvent(name, h.addrs(ic))
		} else {
			h.ms.DeviceDownEvent(name, h.addrs(ic))
		}
		return
	}
	oper := uint8(device.IfOperDown)
	if up {
		oper = device.IfOperUp
	}
	h.upd.client(name).DeviceUpdate(&Dev{Index: ic.Index, Oper: oper, Addrs: h.addrs(ic)})
}

// EventState delivers a device event carrying the given operational state (harness Updater only;
// device.MockServer knows up and down).
func (h *H) EventState(name string, oper uint8) {
	ic := h.ifc(name)
	if h.ms != nil {
		if oper != device.IfOperUp && oper != device.IfOperDown {
			panic("isish: device.MockServer cannot report operational state " + fmt.Sprint(oper))
		}
		h.Event(name, oper == device.IfOperUp)
		return
	}
	h.upd.client(name).DeviceUpdate(&Dev{Index: ic.Index, Oper: oper, Addrs: h.addrs(ic)})
}

// SetDuringLSPBuild installs (or removes, nil) the function called while a local LSP is being built.
func (h *H) SetDuringLSPBuild(f func()) {
	h.mu.Lock()
	h.DuringLSPBuild = f
	h.mu.Unlock()
}

// Eth returns the ethernet handle the server currently holds for the interface (nil if none)
// and the list of all handles the factory created for that name.
func (h *H) Eth(name string) (*Eth, []*Eth) {
	h.mu.Lock()
	all := append([]*Eth{}, h.eths[name]...)
	h.mu.Unlock()
	cur, _ := h.S.GetEthernetInterface(name).(*Eth)
	return cur, all
}

// Feed hands a PDU (without LLC) to the server synchronously, as if received on the interface.
func (h *H) Feed(name string, mac [6]byte, pdu []byte) error {
	return server.VerifProcessPkt(h.S, name, ethernet.MACAddr(mac), WithLLC(pdu))
}

// Take returns and forgets the frames sent since the last Take.
func (h *H) Take() []Sent {
	h.mu.Lock()
	defer h.mu.Unlock()
	s := h.sent
	h.sent = nil
	return s
}

// Advance moves the mock clock.
func (h *H) Advance(d time.Duration) { h.Clock.Add(d) }

// Settle yields until no tick is pending in a bio-rd goroutine and read() returned the same
// value on three consecutive reads at least 250µs apart. It gives up after a generous real-time
// cap; the caller must treat that as inconclusive.
func (h *H) Settle(read func() string) bool {
	deadline := time.Now().Add(20 * time.Second)
	prev, same := "", 0
	for i := 0; ; i++ {
		runtime.Gosched()
		time.Sleep(250 * time.Microsecond)
		if server.VerifPendingTicks(h.S) == 0 {
			v := read()
			if i > 0 && v == prev {
				same++
			} else {
				same = 0
			}
			prev = v
			if same >= 2 {
				return true
			}
		} else {
			same = 0
		}
		if time.Now().After(deadline) {
			h.Unsettled++
			return false
		}
	}
}

// Adj is the projection of an adjacency the oracles use.
type Adj struct {
	Iface string
	MAC   [6]byte
	Sys   SysID
	State uint8
}

func StateName(s uint8) string {
	switch s {
	case AdjUp:
		return "up"
	case AdjInit:
		return "init"
	case AdjDown:
		return "down"
	}
	return fmt.Sprintf("state%d", s)
}

// Adjs returns the adjacency table sorted by interface and MAC.
func (h *H) Adjs() []Adj {
	var out []Adj
	for _, a := range h.S.GetAdjacencies() {
		out = append(out, Adj{Iface: a.InterfaceName, MAC: a.Address, Sys: SysID(a.SystemID), State: a.Status})
	}
	sort.Slice(out, func(i, j int) bool {
		if out[i].Iface != out[j].Iface {
			return out[i].Iface < out[j].Iface
		}
		return string(out[i].MAC[:]) < string(out[j].MAC[:])
	})
	return out
}

func AdjKey(as []Adj) string {
	var b strings.Builder
	for _, a := range as {
		fmt.Fprintf(&b, "%s/%x/%d;", a.Iface, a.MAC, a.State)
	}
	return b.String()
}

// FlagSet is a set of interface names (SRM or SSN flags of an LSDB entry).
type FlagSet []string

func (f FlagSet) Has(name string) bool {
	for _, n := range f {
		if n == name {
			return true
		}
	}
	return false
}

// LSPState is one LSDB entry with its flags.
type LSPState struct {
	ID       LSPID
	Seq      uint32
	Lifetime uint16
	Checksum uint16
	SRM, SSN FlagSet
}

// LSDBList returns a consistent snapshot of the LSDB (with flags) sorted by LSP ID.
func (h *H) LSDBList() []LSPState {
	es := server.VerifLSDBFlags(h.S)
	out := make([]LSPState, len(es))
	for i, e := range es {
		id := MkLSPID(SysID(e.LSPID.SystemID), e.LSPID.PseudonodeID, e.LSPID.LSPNumber)
		out[i] = LSPState{ID: id, Seq: e.SequenceNumber, Lifetime: e.RemainingLifetime, Checksum: e.Checksum, SRM: e.SRM, SSN: e.SSN}
	}
	return out
}

// LSDB returns a consistent snapshot of the LSDB (with flags) keyed by LSP ID.
func (h *H) LSDB() map[LSPID]LSPState {
	es := server.VerifLSDBFlags(h.S)
	out := make(map[LSPID]LSPState, len(es))
	for _, e := range es {
		id := MkLSPID(SysID(e.LSPID.SystemID), e.LSPID.PseudonodeID, e.LSPID.LSPNumber)
		out[id] = LSPState{ID: id, Seq: e.SequenceNumber, Lifetime: e.RemainingLifetime, Checksum: e.Checksum, SRM: e.SRM, SSN: e.SSN}
	}
	return out
}

func (h *H) OwnID() LSPID { return MkLSPID(h.Cfg.Sys, 0, 0) }

// OwnLSP returns the sequence number of the local LSP and the system ids in its extended IS
// reachability TLV (read through the public GetLSDB, the TLV re-encoded by bio-rd and parsed by
// the independent codec).
func (h *H) OwnLSP() (seq uint32, nbrs []string, ok bool, err error) {
	for _, e := range h.S.GetLSDB() {
		l := e.GetLSPDU()
		if SysID(l.LSPID.SystemID) != h.Cfg.Sys || l.LSPID.PseudonodeID != 0 || l.LSPID.LSPNumber != 0 {
			continue
		}
		seq, ok = l.SequenceNumber, true
		for _, t := range l.TLVs {
			if t.Type() != TLVExtISReach {
				continue
			}
			raw := SerializeTLV(t)
			if len(raw) < 2 || int(raw[1]) != len(raw)-2 {
				return seq, nil, true, fmt.Errorf("extended IS reachability TLV: length octet %d, %d value octets", raw[1], len(raw)-2)
			}
			ns, perr := ParseExtISReach(raw[2:])
			if perr != nil {
				return seq, nil, true, perr
			}
			for _, n := range ns {
				nbrs = append(nbrs, fmt.Sprintf("%x", n.ID[:]))
			}
		}
		sort.Strings(nbrs)
		return
	}
	return 0, nil, false, nil
}

// ---------------------------------------------------------------- panics

// PanicInfo describes a panic in a stable way: the message class and the innermost bio-rd
// function on the stack.
type PanicInfo struct {
	Msg string
	At  string
}

// ClassifyPanic extracts PanicInfo from a panic value and a stack trace (debug.Stack() or the
// stderr of a crashed child).
func ClassifyPanic(msg string, stack string) PanicInfo {
	pi := PanicInfo{Msg: normPanic(msg)}
	for _, line := range strings.Split(stack, "\n") {
		line = strings.TrimSpace(line)
		if !strings.HasPrefix(line, "github.com/bio-routing/bio-rd/") {
			continue
		}
		if strings.Contains(line, "verif_hooks") || strings.Contains(line, ".Verif") {
			continue
		}
		fn := strings.TrimPrefix(line, "github.com/bio-routing/bio-rd/")
		if i := strings.LastIndex(fn, "("); i > 0 {
			fn = fn[:i]
		}
		pi.At = fn
		break
	}
	return pi
}

func normPanic(m string) string {
	m = strings.TrimSpace(m)
	m = strings.TrimPrefix(m, "panic: ")
	switch {
	case strings.Contains(m, "nil pointer dereference"):
		return "nil pointer dereference"
	case strings.Contains(m, "close of closed channel"):
		return "close of closed channel"
	case strings.Contains(m, "slice bounds out of range"):
		return "slice bounds out of range"
	case strings.Contains(m, "index out of range"):
		return "index out of range"
	case strings.Contains(m, "interface conversion"):
		return "interface conversion"
	case strings.Contains(m, "makeslice"):
		return "makeslice"
	}
	if i := strings.Index(m, "\n"); i > 0 {
		m = m[:i]
	}
	if len(m) > 80 {
		m = m[:80]
	}
	return m
}

// Guard runs f and converts a panic into PanicInfo plus the full text.
func Guard(f func()) (pi *PanicInfo, text string) {
	defer func() {
		if p := recover(); p != nil {
			st := string(debug.Stack())
			// drop the frames of the recover machinery: start after the first "panic(" frame
			if i := strings.Index(st, "panic("); i >= 0 {
				st = st[i:]
			}
			x := ClassifyPanic(fmt.Sprint(p), st)
			pi = &x
			if len(st) > 1500 {
				st = st[:1500]
			}
			text = fmt.Sprintf("%v\n%s", p, st)
		}
	}()
	f()
	return nil, ""
}

// SerializeTLV returns the octets bio-rd writes for a TLV.
func SerializeTLV(t packet.TLV) []byte {
	buf := bytes.NewBuffer(nil)
	t.Serialize(buf)
	return buf.Bytes()
}
