package isish

import (
	"fmt"
	"math/rand/v2"
	"sync/atomic"
	"time"
)

// Own-LSP copies received while the updater goroutine regenerates the local LSP (C32, own-seq).
// The server is started (real updater goroutine). A round requests a regeneration through an event the
// server reacts to itself, and a copy of the local LSP with a higher sequence number is received (real
// receive function of the interface) while the updater is inside the generation of the new LSP: after it
// has drawn the sequence number, before it stores the LSP (the point at which it asks for the hostname).

type OwnRaceRound struct {
	Trigger string `json:"trigger"` // own-copy (a newer copy received while idle) | adj-down-up (neighbor B stops / starts listing us)
	Delta   int    `json:"delta"`   // the copy received during the build has sequence number (own before the round) + 1 + Delta
	Copies  int    `json:"copies"`  // number of copies received during the build (ascending sequence numbers)
}

type OwnRaceCase struct {
	Rounds []OwnRaceRound `json:"rounds"`
}

func GenOwnRaceCase(rng *rand.Rand) OwnRaceCase {
	var c OwnRaceCase
	for n := 3 + rng.IntN(6); n > 0; n-- {
		r := OwnRaceRound{Trigger: "own-copy", Delta: rng.IntN(6), Copies: 1 + rng.IntN(2)}
		if rng.IntN(2) == 0 {
			r.Trigger = "adj-down-up"
		}
		c.Rounds = append(c.Rounds, r)
	}
	return c
}

func ownCopy(seq uint32) []byte {
	return foreignLSP(MkLSPID(dutSys, 0, 0), seq, 1200)
}

func RunOwnRace(c OwnRaceCase, out *Outcome) {
	cfg := Cfg{Sys: dutSys, Area: dutArea, Ifaces: []IfCfg{
		{Name: "eth0", Hello: 10, Hold: 30, Metric: 10, Index: 5, Net: 0x0a000000},
		{Name: "eth1", Hello: 10, Hold: 30, Metric: 20, Index: 9, Net: 0x0a000100},
	}}
	h, err := New(cfg)
	if err != nil {
		out.Inconclusive = "server construction failed: " + err.Error()
		return
	}
	read := func() string {
		seq, _, _, _ := h.OwnLSP()
		return fmt.Sprintf("%s|%d", AdjKey(h.Adjs()), seq)
	}
	defer func() {
		h.SetDuringLSPBuild(nil)
		Guard(func() { h.Event("eth0", false); h.Event("eth1", false) })
		h.Settle(read)
	}()
	hello := func(i int, lists bool) {
		ifn, mac, sys, net, circ := "eth0", nbrAMAC, nbrASys, uint32(0x0a000000), uint32(5)
		if i == 1 {
			ifn, mac, sys, net, circ = "eth1", nbrBMAC, nbrBSys, 0x0a000100, 9
		}
		tw := &ThreeWay{State: AdjDown, HasExt: true, ExtCircuit: 70}
		if lists {
			tw = &ThreeWay{State: AdjInit, HasExt: true, ExtCircuit: 70, HasNeighbor: true, NbrSys: dutSys, HasNbrCircID: true, NbrCircuit: circ}
		}
		h.Feed(ifn, mac, NbrHello(sys, net, 30, tw))
	}
	if pi, txt := Guard(func() {
		h.Event("eth0", false)
		h.Event("eth1", false)
		h.Event("eth0", true)
		h.Event("eth1", true)
		for i := 0; i < 2; i++ {
			hello(i, false)
			hello(i, true)
		}
	}); pi != nil {
		out.Violate("panic", map[string]string{"op": "setup", "panic": pi.Msg, "at": pi.At}, "setup panicked: %s", txt)
		return
	}
	h.Settle(read)
	ups := 0
	for _, a := range h.Adjs() {
		if a.State == AdjUp {
			ups++
		}
	}
	if ups != 2 {
		out.Inconclusive = fmt.Sprintf("setup: %d adjacencies Up, want 2", ups)
		return
	}
	out.Count("ownrace_histories", 1)
	var maxRx uint32
	for ri, r := range c.Rounds {
		before, _, ok, _ := h.OwnLSP()
		if !ok {
			out.Violate("own-refresh", map[string]string{"when": "concurrent-regeneration"}, "round %d: the LSDB holds no local LSP", ri)
			return
		}
		if before < maxRx {
			before = maxRx
		}
		var armed, fed int32
		var panicTxt atomic.Value
		copies := make([]uint32, 0, r.Copies)
		for k := 0; k < max(1, r.Copies); k++ {
			copies = append(copies, before+1+uint32(r.Delta)+uint32(k))
		}
		h.SetDuringLSPBuild(func() {
			if !atomic.CompareAndSwapInt32(&armed, 1, 0) {
				return
			}
			// what the receiver goroutine of eth0 does with the frames of neighbor A
			if pi, txt := Guard(func() {
				for _, s := range copies {
					h.Feed("eth0", nbrAMAC, ownCopy(s))
				}
			}); pi != nil {
				panicTxt.Store(txt)
			}
			atomic.StoreInt32(&fed, 1)
		})
		atomic.StoreInt32(&armed, 1)
		switch r.Trigger {
		case "adj-down-up":
			hello(1, false) // B no longer lists us: adjacency Down, regeneration requested
		default:
			// a newer copy received while the updater is idle: regeneration requested
			maxRx = before + 1
			h.Feed("eth0", nbrAMAC, ownCopy(maxRx))
		}
		deadline := time.Now().Add(10 * time.Second)
		for atomic.LoadInt32(&fed) == 0 && time.Now().Before(deadline) {
			time.Sleep(100 * time.Microsecond)
		}
		h.SetDuringLSPBuild(nil)
		if t, _ := panicTxt.Load().(string); t != "" {
			out.Violate("panic", map[string]string{"op": "own-lsp-during-regeneration"}, "round %d: receiving a copy of the local LSP while it is being regenerated panicked: %s", ri, t)
			return
		}
		if atomic.LoadInt32(&fed) == 0 {
			out.Count("ownrace_rounds_without_regeneration", 1)
			atomic.StoreInt32(&armed, 0)
			continue
		}
		for _, s := range copies {
			if s > maxRx {
				maxRx = s
			}
		}
		out.Count("own_copies_during_regeneration", len(copies))
		out.Count("ownrace_rounds_"+r.Trigger, 1)
		out.Evals++
		h.Settle(read)
		seq, _, _, _ := h.OwnLSP()
		// a negative decision gets a real-time grace period: a pending regeneration only needs the updater
		// goroutine to be scheduled
		for i := 0; i < 500 && seq <= maxRx; i++ {
			time.Sleep(time.Millisecond)
			seq, _, _, _ = h.OwnLSP()
		}
		if seq <= maxRx {
			out.Violate("own-seq", map[string]string{"when": "received-during-regeneration"},
				"round %d (%s): copies of the local LSP with sequence numbers %v were received from neighbor A while the updater goroutine was generating a new local LSP (sequence number drawn, LSP not stored yet); no regeneration is pending any more and the LSDB holds the local LSP with sequence number %d <= %d, the highest copy seen on the network", ri, r.Trigger, copies, seq, maxRx)
			return
		}
		out.Count("own_seq_checks_after_concurrent_copy", 1)
		if r.Trigger == "adj-down-up" {
			// only now (a further regeneration would hide a lost one): B lists us again
			hello(1, true)
			h.Settle(read)
		}
	}
	if len(c.Rounds) >= 3 {
		out.Nontrivial = append(out.Nontrivial, fmt.Sprintf("ownrace%v", c.Rounds))
	}
}
