// Package bmpconn is a one-directional in-memory net.Conn for driving bio-rd's BMP router
// session: the harness feeds bytes, the router reads them. It exposes the two logical events the
// BMP oracles synchronise on: "the router closed the connection" and "the reader is blocked in
// Read with every fed byte consumed" (the serve loop is single-threaded and handles a message
// synchronously before it reads again, so this event proves that everything fed so far has been
// handled completely, or is an incomplete frame the loop is waiting to complete).
package bmpconn

import (
	"errors"
	"io"
	"net"
	"sync"
	"time"
)

// State is what WaitQuiescent observed.
type State int

const (
	// Blocked: the reader waits in Read and has consumed every byte fed so far.
	Blocked State = iota
	// Closed: the router side called Close.
	Closed
	// Timeout: neither happened within the watchdog (input unread or reader busy elsewhere).
	Timeout
)

func (s State) String() string {
	switch s {
	case Blocked:
		return "blocked"
	case Closed:
		return "closed"
	}
	return "timeout"
}

var errClosed = errors.New("bmpconn: use of closed connection")

// Conn implements net.Conn. Reads come from what Feed appended; writes are recorded.
type Conn struct {
	mu       sync.Mutex
	cond     *sync.Cond
	buf      []byte
	off      int
	eof      bool // harness side finished: Read returns io.EOF once the buffer is drained
	reset    bool // harness side aborted: Read returns an error immediately
	closed   bool // router side closed
	readers  int  // readers blocked in Read with nothing to read
	fed      int64
	consumed int64
	reads    int64
	written  []byte
	closes   int
}

func New() *Conn {
	c := &Conn{}
	c.cond = sync.NewCond(&c.mu)
	return c
}

// Feed appends bytes for the router to read.
func (c *Conn) Feed(b []byte) {
	c.mu.Lock()
	if c.off == len(c.buf) {
		c.buf, c.off = c.buf[:0], 0
	}
	c.buf = append(c.buf, b...)
	c.fed += int64(len(b))
	c.cond.Broadcast()
	c.mu.Unlock()
}

// CloseWrite signals an orderly end of the monitored router's stream (EOF after buffered data).
func (c *Conn) CloseWrite() {
	c.mu.Lock()
	c.eof = true
	c.cond.Broadcast()
	c.mu.Unlock()
}

// Reset signals loss of the connection: pending and future reads fail immediately.
func (c *Conn) Reset() {
	c.mu.Lock()
	c.reset = true
	c.cond.Broadcast()
	c.mu.Unlock()
}

func (c *Conn) Read(p []byte) (int, error) {
	c.mu.Lock()
	defer c.mu.Unlock()
	c.reads++
	for {
		if c.closed {
			return 0, errClosed
		}
		if c.reset {
			return 0, errors.New("bmpconn: connection reset by peer")
		}
		if len(p) == 0 {
			return 0, nil
		}
		if c.off < len(c.buf) {
			n := copy(p, c.buf[c.off:])
			c.off += n
			c.consumed += int64(n)
			return n, nil
		}
		if c.eof {
			return 0, io.EOF
		}
		c.readers++
		c.cond.Broadcast()
		c.cond.Wait()
		c.readers--
	}
}

func (c *Conn) Write(p []byte) (int, error) {
	c.mu.Lock()
	defer c.mu.Unlock()
	if c.closed {
		return 0, errClosed
	}
	if len(c.written) < 1<<16 {
		c.written = append(c.written, p...)
	}
	return len(p), nil
}

func (c *Conn) Close() error {
	c.mu.Lock()
	c.closed = true
	c.closes++
	c.cond.Broadcast()
	c.mu.Unlock()
	return nil
}

// WaitQuiescent blocks until the reader is blocked at the end of the input, the router closed the
// connection, or the watchdog expires.
func (c *Conn) WaitQuiescent(watchdog time.Duration) State {
	var fired bool
	t := time.AfterFunc(watchdog, func() {
		c.mu.Lock()
		fired = true
		c.cond.Broadcast()
		c.mu.Unlock()
	})
	defer t.Stop()
	c.mu.Lock()
	defer c.mu.Unlock()
	for {
		if c.closed {
			return Closed
		}
		if c.readers > 0 && c.off == len(c.buf) {
			return Blocked
		}
		if fired {
			return Timeout
		}
		c.cond.Wait()
	}
}

// IsClosed reports whether the router side closed the connection.
func (c *Conn) IsClosed() bool {
	c.mu.Lock()
	defer c.mu.Unlock()
	return c.closed
}

// Stats returns bytes fed, bytes consumed by the reader and the number of Read calls.
func (c *Conn) Stats() (fed, consumed, reads int64) {
	c.mu.Lock()
	defer c.mu.Unlock()
	return c.fed, c.consumed, c.reads
}

// Written returns what the router wrote to the connection (a BMP receiver never should).
func (c *Conn) Written() []byte {
	c.mu.Lock()
	defer c.mu.Unlock()
	return append([]byte(nil), c.written...)
}

type addr string

func (a addr) Network() string { return "bmpconn" }
func (a addr) String() string  { return string(a) }

func (c *Conn) LocalAddr() net.Addr                { return addr("receiver") }
func (c *Conn) RemoteAddr() net.Addr               { return addr("router") }
func (c *Conn) SetDeadline(t time.Time) error      { return nil }
func (c *Conn) SetReadDeadline(t time.Time) error  { return nil }
func (c *Conn) SetWriteDeadline(t time.Time) error { return nil }
