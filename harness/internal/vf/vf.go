// Package vf is the small framework every property check is built on: tiers and
// seeds, PRNG streams, measured coverage counters, violation de-duplication, replay
// files, fresh-process reconfirmation, known-findings matching, evidence output and the
// exit-code contract (0 held / 1 violation / 3 inconclusive).
package vf

import (
	"bytes"
	"encoding/json"
	"flag"
	"fmt"
	"hash/fnv"
	"math/rand/v2"
	"os"
	"os/exec"
	"path/filepath"
	"sort"
	"strconv"
	"strings"
	"sync"
	"time"
)

// Root is where MANIFEST.json, evidence/, replays/ and known_findings.jsonl live.
var Root = func() string {
	if r := os.Getenv("VERIF_ROOT"); r != "" {
		return r
	}
	return "/verif"
}()

// outRoot is where evidence and replays are written: Root, or Root/scratch/alt when the check runs against another
// checkout than /repo (VERIF_REPO development aid), so that such runs never overwrite the real evidence.
func outRoot() string {
	if os.Getenv("VERIF_REPO") != "" {
		return filepath.Join(Root, "scratch", "alt")
	}
	return Root
}

// Violation is one refutation of a property by an oracle on a concrete case.
type Violation struct {
	Clause   string            `json:"clause"`             // which oracle clause failed
	Features map[string]string `json:"features,omitempty"` // small, stable feature map of the failing case
	Detail   string            `json:"detail"`             // human readable: expected vs observed
	Case     any               `json:"case,omitempty"`     // the generated case (replayable)
}

// Signature identifies a class of violations (clause + features), independent of the seed.
func (v *Violation) Signature() string {
	ks := make([]string, 0, len(v.Features))
	for k := range v.Features {
		ks = append(ks, k)
	}
	sort.Strings(ks)
	var b strings.Builder
	b.WriteString(v.Clause)
	for _, k := range ks {
		fmt.Fprintf(&b, "|%s=%s", k, v.Features[k])
	}
	return b.String()
}

type knownFinding struct {
	Property string            `json:"property"`
	Status   string            `json:"status"` // open | fixed
	Clause   string            `json:"clause"`
	Features map[string]string `json:"features,omitempty"`
	What     string            `json:"what"`
	Witness  any               `json:"witness,omitempty"`
	Commit   string            `json:"commit,omitempty"`
}

func (k *knownFinding) matches(v *Violation) bool {
	if k.Status != "open" || k.Clause != v.Clause {
		return false
	}
	for f, want := range k.Features {
		if v.Features[f] != want {
			return false
		}
	}
	return true
}

type vrec struct {
	v      Violation
	count  int
	replay string
	// reconfirmation outcome
	confirmed bool
	unstable  bool
}

// Run is the state of one check execution.
type Run struct {
	ID    string
	Tier  string
	Seed  int64
	Level string

	replayPath string
	replayCase json.RawMessage
	expectSig  string
	noReconf   bool

	mu          sync.Mutex
	start       time.Time
	evals       int64
	nontriv     map[uint64]struct{}
	samples     []any
	maxSamples  int
	counters    map[string]int64
	extra       map[string]any
	rule        string
	exhaustive  bool
	assumptions []string
	viol        map[string]*vrec
	violOrder   []string
	inconcl     []string
	requires    map[string]int64
	// NonDeterministic marks clauses whose witnesses are schedule dependent and therefore
	// are not required to reproduce from the replay file.
	nondetClauses map[string]bool
	// watchdogClauses are decided by a wall-clock watchdog (a step did not finish in time): a firing that does not
	// reproduce in a fresh process is a slow machine, not a witness, and decides nothing about that one case.
	watchdogClauses map[string]bool
}

var (
	flagTier   = flag.String("tier", "", "quick|thorough (default $VERIF_TIER or quick)")
	flagReplay = flag.String("replay", "", "replay a recorded case file")
	flagExpect = flag.String("expect-sig", "", "internal: signature expected from the replay")
	flagNoRec  = flag.Bool("no-reconfirm", false, "do not re-execute violations in a fresh process")
)

// Main runs body for property id and never returns.
func Main(id, level string, body func(r *Run)) {
	flag.Parse()
	r := &Run{ID: id, Level: level, start: time.Now(), nontriv: map[uint64]struct{}{}, maxSamples: 6,
		counters: map[string]int64{}, extra: map[string]any{}, viol: map[string]*vrec{}, requires: map[string]int64{},
		nondetClauses: map[string]bool{}}
	r.Tier = *flagTier
	if r.Tier == "" {
		r.Tier = os.Getenv("VERIF_TIER")
	}
	if r.Tier != "thorough" {
		r.Tier = "quick"
	}
	r.Seed = 1
	if s := os.Getenv("VERIF_SEED"); s != "" {
		if n, err := strconv.ParseInt(s, 10, 64); err == nil {
			r.Seed = n
		}
	}
	r.noReconf = *flagNoRec
	if *flagReplay != "" {
		r.replayPath = *flagReplay
		r.expectSig = *flagExpect
		raw, err := os.ReadFile(*flagReplay)
		if err != nil {
			fmt.Fprintf(os.Stderr, "replay: %v\n", err)
			os.Exit(3)
		}
		var f struct {
			Seed int64           `json:"seed"`
			Tier string          `json:"tier"`
			Case json.RawMessage `json:"case"`
		}
		if err := json.Unmarshal(raw, &f); err != nil {
			fmt.Fprintf(os.Stderr, "replay: %v\n", err)
			os.Exit(3)
		}
		r.replayCase = f.Case
		if f.Seed != 0 {
			r.Seed = f.Seed
		}
	}
	body(r)
	r.finish()
}

// Quick reports whether this is the quick tier.
func (r *Run) Quick() bool { return r.Tier == "quick" }

// N picks the case count of the tier.
func (r *Run) N(quick, thorough int) int {
	if r.Quick() {
		return quick
	}
	return thorough
}

// Replaying returns the recorded case when the process was started with --replay.
func (r *Run) Replaying() (json.RawMessage, bool) {
	return r.replayCase, r.replayPath != ""
}

// Rand returns a deterministic PRNG stream for (seed, name).
func (r *Run) Rand(name string) *rand.Rand {
	h := fnv.New64a()
	h.Write([]byte(name))
	return rand.New(rand.NewPCG(uint64(r.Seed), h.Sum64()))
}

// RandN is Rand for an indexed sub-stream, e.g. one per case so that cases are independent of each other.
func (r *Run) RandN(name string, i int) *rand.Rand {
	h := fnv.New64a()
	h.Write([]byte(name))
	return rand.New(rand.NewPCG(uint64(r.Seed)^(uint64(i)*0x9e3779b97f4a7c15), h.Sum64()+uint64(i)))
}

func (r *Run) Eval(n int) {
	r.mu.Lock()
	r.evals += int64(n)
	r.mu.Unlock()
}

// Nontrivial records a distinct non-trivial case by key.
func (r *Run) Nontrivial(key string) {
	h := fnv.New64a()
	h.Write([]byte(key))
	r.mu.Lock()
	r.nontriv[h.Sum64()] = struct{}{}
	r.mu.Unlock()
}

func (r *Run) NontrivialBytes(key []byte) {
	h := fnv.New64a()
	h.Write(key)
	r.mu.Lock()
	r.nontriv[h.Sum64()] = struct{}{}
	r.mu.Unlock()
}

// Sample keeps a few real cases for the evidence file.
func (r *Run) Sample(v any) {
	r.mu.Lock()
	if len(r.samples) < r.maxSamples {
		r.samples = append(r.samples, v)
	}
	r.mu.Unlock()
}

func (r *Run) WantSample() bool {
	r.mu.Lock()
	defer r.mu.Unlock()
	return len(r.samples) < r.maxSamples
}

// Count adds to a named measured counter reported under coverage.
func (r *Run) Count(name string, n int) {
	r.mu.Lock()
	r.counters[name] += int64(n)
	r.mu.Unlock()
}

func (r *Run) Counter(name string) int64 {
	r.mu.Lock()
	defer r.mu.Unlock()
	return r.counters[name]
}

// Max keeps the maximum of a named measured quantity.
func (r *Run) Max(name string, n int64) {
	r.mu.Lock()
	if n > r.counters[name] {
		r.counters[name] = n
	}
	r.mu.Unlock()
}

// Set stores an extra coverage key.
func (r *Run) Set(name string, v any) {
	r.mu.Lock()
	r.extra[name] = v
	r.mu.Unlock()
}

func (r *Run) Rule(s string)       { r.rule = s }
func (r *Run) Exhaustive(b bool)   { r.exhaustive = b }
func (r *Run) Assume(s ...string)  { r.assumptions = append(r.assumptions, s...) }
func (r *Run) NonDeterministic(clause string) { r.nondetClauses[clause] = true }

// Watchdog declares a clause whose only evidence is a wall-clock watchdog. Its witnesses are replayed up to three
// times in fresh processes; one that never reproduces is reported as WATCHDOG-UNCONFIRMED and counted in the
// evidence, and the run becomes inconclusive only if more than three signatures end like that.
func (r *Run) Watchdog(clause string) {
	if r.watchdogClauses == nil {
		r.watchdogClauses = map[string]bool{}
	}
	r.watchdogClauses[clause] = true
}

// Require makes the run inconclusive unless counter name reached min: a monitor that saw nothing decides nothing.
func (r *Run) Require(name string, min int64) { r.requires[name] = min }

// Inconclusive records a reason why the run cannot decide.
func (r *Run) Inconclusive(reason string) {
	r.mu.Lock()
	r.inconcl = append(r.inconcl, reason)
	r.mu.Unlock()
}

// Violate records a violation; only the first witness per signature is kept.
func (r *Run) Violate(v Violation) {
	sig := v.Signature()
	r.mu.Lock()
	defer r.mu.Unlock()
	if rec, ok := r.viol[sig]; ok {
		rec.count++
		return
	}
	r.viol[sig] = &vrec{v: v, count: 1}
	r.violOrder = append(r.violOrder, sig)
}

// Violations returns how many distinct signatures fired so far.
func (r *Run) Violations() int {
	r.mu.Lock()
	defer r.mu.Unlock()
	return len(r.viol)
}

func sanitize(s string) string {
	var b strings.Builder
	for _, c := range s {
		switch {
		case c >= 'a' && c <= 'z', c >= 'A' && c <= 'Z', c >= '0' && c <= '9', c == '-', c == '_', c == '.':
			b.WriteRune(c)
		default:
			b.WriteByte('_')
		}
	}
	out := b.String()
	if len(out) > 80 {
		h := fnv.New32a()
		h.Write([]byte(s))
		out = out[:70] + fmt.Sprintf("_%08x", h.Sum32())
	}
	return out
}

func loadKnown(id string) []knownFinding {
	files := []string{filepath.Join(Root, "known_findings.jsonl")}
	more, _ := filepath.Glob(filepath.Join(Root, "known_findings.d", "*.jsonl"))
	files = append(files, more...)
	var out []knownFinding
	for _, fn := range files {
		raw, err := os.ReadFile(fn)
		if err != nil {
			continue
		}
		for _, line := range bytes.Split(raw, []byte("\n")) {
			line = bytes.TrimSpace(line)
			if len(line) == 0 || line[0] == '#' {
				continue
			}
			var k knownFinding
			if err := json.Unmarshal(line, &k); err != nil {
				fmt.Fprintf(os.Stderr, "%s: bad line: %v\n", fn, err)
				continue
			}
			if k.Property == id {
				out = append(out, k)
			}
		}
	}
	return out
}

func (r *Run) finish() {
	// replay child: print signatures and exit
	if r.replayPath != "" {
		found := false
		for _, sig := range r.violOrder {
			fmt.Printf("REPLAY-VIOLATION property=%s sig=%s\n", r.ID, sig)
			fmt.Printf("  detail: %s\n", r.viol[sig].v.Detail)
			if r.expectSig == "" || sig == r.expectSig {
				found = true
			}
		}
		if found {
			os.Exit(1)
		}
		fmt.Printf("REPLAY-CLEAN property=%s\n", r.ID)
		os.Exit(0)
	}

	known := loadKnown(r.ID)
	dir := filepath.Join(outRoot(), "replays", r.ID)
	exe, _ := os.Executable()
	for _, sig := range r.violOrder {
		rec := r.viol[sig]
		os.MkdirAll(dir, 0o755)
		p := filepath.Join(dir, fmt.Sprintf("%s-%d.json", sanitize(sig), r.Seed))
		f := map[string]any{"property": r.ID, "seed": r.Seed, "tier": r.Tier, "clause": rec.v.Clause,
			"features": rec.v.Features, "detail": rec.v.Detail, "case": rec.v.Case}
		b, _ := json.MarshalIndent(f, "", " ")
		os.WriteFile(p, b, 0o644)
		rec.replay = p
		rec.confirmed = true
		if rec.v.Case != nil && !r.noReconf && !r.nondetClauses[rec.v.Clause] {
			tries := 1
			if r.watchdogClauses[rec.v.Clause] {
				tries = 3
			}
			rec.confirmed = false
			for t := 0; t < tries && !rec.confirmed; t++ {
				cmd := exec.Command(exe, "--replay", p, "--expect-sig", sig)
				cmd.Env = os.Environ()
				out, err := runWithTimeout(cmd, 10*time.Minute)
				rec.confirmed = err != nil && bytes.Contains(out, []byte("REPLAY-VIOLATION"))
			}
			rec.unstable = !rec.confirmed
		}
	}

	nViol, nKnown, nUnstable, nWatchdog := 0, 0, 0, 0
	var watchdogSigs []string
	var lines []string
	knownSeen := map[int]bool{}
	for _, sig := range r.violOrder {
		rec := r.viol[sig]
		if rec.unstable && r.watchdogClauses[rec.v.Clause] {
			nWatchdog++
			watchdogSigs = append(watchdogSigs, sig)
			lines = append(lines, fmt.Sprintf("WATCHDOG-UNCONFIRMED property=%s sig=%s replay=%s (a wall-clock watchdog fired once and in none of three fresh processes: that case decides nothing)", r.ID, sig, rec.replay))
			continue
		}
		if rec.unstable {
			nUnstable++
			lines = append(lines, fmt.Sprintf("UNCONFIRMED property=%s sig=%s replay=%s (did not reproduce in a fresh process: inconclusive)", r.ID, sig, rec.replay))
			continue
		}
		matched := -1
		for i := range known {
			if known[i].matches(&rec.v) {
				matched = i
				break
			}
		}
		if matched >= 0 {
			nKnown++
			if !knownSeen[matched] {
				knownSeen[matched] = true
				lines = append(lines, fmt.Sprintf("KNOWN-FINDING: property=%s %s [clause=%s sig=%s hits=%d]", r.ID, known[matched].What, rec.v.Clause, sig, rec.count))
			}
			continue
		}
		nViol++
		lines = append(lines, fmt.Sprintf("VIOLATION property=%s replay=%s", r.ID, rec.replay))
		lines = append(lines, fmt.Sprintf("  clause=%s sig=%s hits=%d", rec.v.Clause, sig, rec.count))
		lines = append(lines, fmt.Sprintf("  detail: %s", rec.v.Detail))
	}
	for name, min := range r.requires {
		if r.counters[name] < min {
			r.inconcl = append(r.inconcl, fmt.Sprintf("monitor %q observed %d events, needs >= %d", name, r.counters[name], min))
		}
	}
	if nWatchdog > 0 {
		r.extra["watchdog_firings_not_reproduced"] = watchdogSigs
	}
	if nWatchdog > 3 {
		r.inconcl = append(r.inconcl, fmt.Sprintf("%d watchdog firings did not reproduce: the machine is too slow for the time limits of this check", nWatchdog))
	}
	if nUnstable > 0 {
		r.inconcl = append(r.inconcl, fmt.Sprintf("%d violation(s) did not reproduce from their replay file", nUnstable))
	}

	var matchedWhat []string
	for i := range known {
		if knownSeen[i] {
			matchedWhat = append(matchedWhat, known[i].What)
		}
	}
	r.extra["known_findings_matched"] = matchedWhat
	r.writeEvidence(nViol, nKnown)

	for _, l := range lines {
		fmt.Println(l)
	}
	verdict := "held"
	code := 0
	if nViol > 0 {
		verdict, code = "violated", 1
	} else if len(r.inconcl) > 0 {
		verdict, code = "inconclusive", 3
		for _, s := range r.inconcl {
			fmt.Printf("INCONCLUSIVE property=%s %s\n", r.ID, s)
		}
	}
	fmt.Printf("RESULT property=%s tier=%s seed=%d verdict=%s evaluations=%d distinct_nontrivial=%d new_violations=%d known_findings=%d wall_s=%.1f\n",
		r.ID, r.Tier, r.Seed, verdict, r.evals, len(r.nontriv), nViol, nKnown, time.Since(r.start).Seconds())
	os.Exit(code)
}

func runWithTimeout(cmd *exec.Cmd, d time.Duration) ([]byte, error) {
	var buf bytes.Buffer
	cmd.Stdout = &buf
	cmd.Stderr = &buf
	if err := cmd.Start(); err != nil {
		return nil, err
	}
	done := make(chan error, 1)
	go func() { done <- cmd.Wait() }()
	select {
	case err := <-done:
		return buf.Bytes(), err
	case <-time.After(d):
		cmd.Process.Kill()
		<-done
		return buf.Bytes(), fmt.Errorf("timeout")
	}
}

func (r *Run) writeEvidence(nViol, nKnown int) {
	cov := map[string]any{}
	for k, v := range r.counters {
		cov[k] = v
	}
	for k, v := range r.extra {
		cov[k] = v
	}
	cov["evaluations"] = r.evals
	cov["distinct_nontrivial"] = len(r.nontriv)
	cov["rule"] = r.rule
	samples := r.samples
	if samples == nil {
		samples = []any{}
	}
	cov["samples"] = samples
	cov["exhaustive"] = r.exhaustive
	cov["known_findings_reproduced"] = nKnown
	if len(r.inconcl) > 0 {
		cov["inconclusive"] = r.inconcl
	}
	var sigs []string
	for _, sig := range r.violOrder {
		sigs = append(sigs, fmt.Sprintf("%s x%d", sig, r.viol[sig].count))
	}
	if sigs != nil {
		cov["violation_signatures"] = sigs
	}
	ev := map[string]any{
		"property_id": r.ID,
		"tier":        r.Tier,
		"seed":        r.Seed,
		"level":       r.Level,
		"coverage":    cov,
		"assumptions": append([]string{}, r.assumptions...),
		"wall_s":      float64(int(time.Since(r.start).Seconds()*10)) / 10,
		"violations":  nViol,
	}
	b, _ := json.MarshalIndent(ev, "", " ")
	os.MkdirAll(filepath.Join(outRoot(), "evidence"), 0o755)
	tmp := filepath.Join(outRoot(), "evidence", r.ID+".json.tmp")
	os.WriteFile(tmp, append(b, '\n'), 0o644)
	os.Rename(tmp, filepath.Join(outRoot(), "evidence", r.ID+".json"))
}

// F builds a feature map from alternating key, value arguments.
func F(kv ...any) map[string]string {
	m := map[string]string{}
	for i := 0; i+1 < len(kv); i += 2 {
		m[fmt.Sprint(kv[i])] = fmt.Sprint(kv[i+1])
	}
	return m
}

// Decode unmarshals a replay case into v, exiting on error.
func Decode(raw json.RawMessage, v any) {
	if err := json.Unmarshal(raw, v); err != nil {
		fmt.Fprintf(os.Stderr, "replay case does not decode: %v\n", err)
		os.Exit(3)
	}
}

// Parallel runs fn(i) for i in [0,n) on workers goroutines.
func Parallel(n, workers int, fn func(i int)) {
	if workers < 1 {
		workers = 1
	}
	var wg sync.WaitGroup
	ch := make(chan int, workers*2)
	for w := 0; w < workers; w++ {
		wg.Add(1)
		go func() {
			defer wg.Done()
			for i := range ch {
				fn(i)
			}
		}()
	}
	for i := 0; i < n; i++ {
		ch <- i
	}
	close(ch)
	wg.Wait()
}
