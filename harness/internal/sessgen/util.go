package sessgen

import "time"

func secs(n int) time.Duration { return time.Duration(n) * time.Second }
