// Package sessgen holds what the session checks (C07, C19, C20, …) share on top of
// internal/speaker: a JSON-serialisable session configuration that is negotiated for real, a
// JSON-serialisable description of a valid UPDATE with its builder, and an attribute generator.
package sessgen

import (
	"time"
	"fmt"
	"math/rand/v2"
	"strings"

	"github.com/bio-routing/bio-rd/routingtable/filter"

	"verifharness/internal/gen"
	"verifharness/internal/speaker"
	"verifharness/internal/wire"
)

// LocalAS is bio-rd's AS in every generated session.
const LocalAS = 65000

// Cfg describes one session: bio-rd's peer configuration and what the remote side offers in its OPEN.
type Cfg struct {
	EBGP     bool   `json:"ebgp"`
	RRClient bool   `json:"rr_client,omitempty"` // iBGP route reflector client (cluster id = router id)
	V4       bool   `json:"v4"`
	V6       bool   `json:"v6"`
	V4MP     bool   `json:"v4mp"`             // bio-rd advertises MP IPv4 and so does the remote side
	RecvV4   bool   `json:"recv_v4"`          // bio-rd configured to receive path ids (IPv4)
	RecvV6   bool   `json:"recv_v6"`          // … IPv6
	OfferV4  bool   `json:"offer_v4"`         // remote side advertises add-path send (IPv4)
	OfferV6  bool   `json:"offer_v6"`         // … IPv6
	PeerAS4  bool   `json:"peer_as4"`         // remote side advertises capability 65
	BigPeer  bool   `json:"big_peer"`         // 4-octet peer AS (needs PeerAS4)
	Hold     int    `json:"hold,omitempty"`   // bio-rd's configured hold time in seconds (0: 90)
	Import   string `json:"import,omitempty"` // "", "accept", "set-lp", "prepend", "reject"
	// OmitMPv6: IPv6 is configured on bio-rd's side (V6) but the remote side's OPEN carries no multiprotocol
	// capability for IPv6 unicast (an IPv4-only speaker): the family is configured and not negotiated
	OmitMPv6 bool `json:"omit_mp_v6,omitempty"`
	// APLayout: how the remote side lays out its ADD-PATH capability (RFC 7911 section 4 gives the tuples no order and
	// RFC 5492 section 4 allows several instances of a capability): "" one capability, IPv4 then IPv6;
	// "reversed"; "foreign-first" / "foreign-last" / "foreign-between": tuples naming families the session does not
	// carry (see ForeignAddPath) in front of / behind / between the real ones; "split": one capability instance per
	// tuple; "split-foreign-first": the same with the foreign tuples' instances first.
	APLayout string `json:"ap_layout,omitempty"`
	// APFirst: the ADD-PATH capability precedes the multiprotocol capabilities in the OPEN
	APFirst bool `json:"ap_first,omitempty"`
}

// ForeignAddPath lists ADD-PATH tuples for address families the session of c does not carry: the unicast family that is
// not configured (IPv6 on an IPv4-only session and vice versa), IPv4 multicast and L2VPN (AFI 25) unicast-SAFI.
func (c Cfg) ForeignAddPath() []wire.AddPathTuple {
	var ts []wire.AddPathTuple
	if !c.V6 {
		ts = append(ts, wire.AddPathTuple{Family: wire.IPv6Unicast, Mode: 3})
	}
	if !c.V4 {
		ts = append(ts, wire.AddPathTuple{Family: wire.IPv4Unicast, Mode: 3})
	}
	return append(ts, wire.AddPathTuple{Family: wire.Family{AFI: wire.AFIIPv4, SAFI: 2}, Mode: 3},
		wire.AddPathTuple{Family: wire.Family{AFI: 25, SAFI: 1}, Mode: 2})
}

// addPathCaps lays the real tuples out as c.APLayout says.
func (c Cfg) addPathCaps(real []wire.AddPathTuple) []wire.Capability {
	if c.APLayout == "" {
		if len(real) == 0 {
			return nil
		}
		return []wire.Capability{wire.CapAddPath(real...)}
	}
	foreign := c.ForeignAddPath()
	var ts []wire.AddPathTuple
	switch c.APLayout {
	case "reversed":
		for i := len(real) - 1; i >= 0; i-- {
			ts = append(ts, real[i])
		}
	case "foreign-first", "split-foreign-first":
		ts = append(append(ts, foreign...), real...)
	case "foreign-between":
		ts = append(ts, foreign[0])
		for i, t := range real {
			ts = append(ts, t)
			if i+1 < len(foreign) {
				ts = append(ts, foreign[i+1])
			}
		}
	default: // foreign-last, split
		ts = append(append(ts, real...), foreign...)
	}
	if len(ts) == 0 {
		return nil
	}
	if strings.HasPrefix(c.APLayout, "split") {
		var out []wire.Capability
		for _, t := range ts {
			out = append(out, wire.CapAddPath(t))
		}
		return out
	}
	return []wire.Capability{wire.CapAddPath(ts...)}
}

// PeerAS is the remote AS of the session.
func (c Cfg) PeerAS() uint32 {
	if !c.EBGP {
		return LocalAS
	}
	if c.BigPeer {
		return 4200000001
	}
	return 65001
}

// ImportChain builds the import policy named by c.Import.
func (c Cfg) ImportChain() filter.Chain {
	switch c.Import {
	case "set-lp":
		return speaker.SetLocalPref(777)
	case "prepend":
		return speaker.Prepend(64777, 2)
	case "reject":
		return speaker.Reject()
	}
	return speaker.Accept()
}

// PeerConfig is the speaker configuration for c.
func (c Cfg) PeerConfig() speaker.PeerConfig {
	pc := speaker.PeerConfig{LocalAS: LocalAS, PeerAS: c.PeerAS(), AdvertiseIPv4MP: c.V4MP, RRClient: c.RRClient && !c.EBGP}
	if c.Hold > 0 {
		pc.HoldTime = secs(c.Hold)
	}
	if c.V4 {
		pc.IPv4 = &speaker.Family{AddPathRecv: c.RecvV4, Import: c.ImportChain()}
	}
	if c.V6 {
		pc.IPv6 = &speaker.Family{AddPathRecv: c.RecvV6, Import: c.ImportChain()}
	}
	return pc
}

// Open is the OPEN the remote side sends for c.
func (c Cfg) Open() *wire.Open {
	o := &wire.Open{Version: 4, HoldTime: 90, ID: 0x0a090909}
	if c.PeerAS() > 0xffff {
		o.AS = speaker.ASTrans
	} else {
		o.AS = uint16(c.PeerAS())
	}
	if c.PeerAS4 || c.BigPeer {
		o.Caps = append(o.Caps, wire.CapAS4(c.PeerAS()))
	}
	var ts []wire.AddPathTuple
	if c.OfferV4 {
		ts = append(ts, wire.AddPathTuple{Family: wire.IPv4Unicast, Mode: 2})
	}
	if c.OfferV6 {
		ts = append(ts, wire.AddPathTuple{Family: wire.IPv6Unicast, Mode: 3})
	}
	ap := c.addPathCaps(ts)
	if c.APFirst {
		o.Caps = append(o.Caps, ap...)
	}
	if c.V4MP {
		o.Caps = append(o.Caps, wire.CapMP(wire.IPv4Unicast))
	}
	if c.V6 && !c.OmitMPv6 {
		o.Caps = append(o.Caps, wire.CapMP(wire.IPv6Unicast))
	}
	if !c.APFirst {
		o.Caps = append(o.Caps, ap...)
	}
	return o
}

// AddPathV4 / AddPathV6: path identifiers travel remote → bio-rd in that family.
func (c Cfg) AddPathV4() bool { return c.V4 && c.RecvV4 && c.OfferV4 }
func (c Cfg) AddPathV6() bool { return c.V6 && c.RecvV6 && c.OfferV6 }

// NegV6: IPv6 unicast is configured and the remote side offers the multiprotocol capability for it.
func (c Cfg) NegV6() bool { return c.V6 && !c.OmitMPv6 }

// Kind is a short label of the session kind.
func (c Cfg) Kind() string {
	switch {
	case c.EBGP:
		return "ebgp"
	case c.RRClient:
		return "rr-client"
	}
	return "ibgp"
}

// Establish connects to p and establishes with c.Open(), retrying when the machine was too slow
// for bio-rd's one second OpenSent timer.
func Establish(p *speaker.Peer, c Cfg) (*speaker.Session, error) {
	var s *speaker.Session
	var err error
	for attempt := 0; attempt < 5; attempt++ {
		// a previous FSM of the peer may not have published its new state yet (a legitimate transient
		// collision answer, RFC 4271 section 6.8), or bio-rd's 1 s OpenSent timer fired on a stalled machine
		time.Sleep(time.Duration(attempt*attempt) * 25 * time.Millisecond)
		s, err = p.Connect()
		if err == nil {
			err = s.Establish(c.Open())
		}
		if err == nil {
			return s, nil
		}
	}
	return s, err
}

// NewSession builds a server with one peer for c and establishes the session.
func NewSession(c Cfg) (*speaker.Server, *speaker.Peer, *speaker.Session, error) {
	srv := speaker.NewServer(speaker.ServerConfig{})
	p, err := srv.AddPeer(c.PeerConfig())
	if err != nil {
		return srv, nil, nil, err
	}
	s, err := Establish(p, c)
	return srv, p, s, err
}

// RandCfg draws a session configuration.
func RandCfg(rng *rand.Rand) Cfg {
	var c Cfg
	c.EBGP = rng.IntN(2) == 0
	switch rng.IntN(4) {
	case 0:
		c.V4 = true
	case 1:
		c.V4, c.V6 = true, true
	case 2:
		c.V4, c.V6, c.V4MP = true, true, true
	case 3:
		c.V4, c.V4MP = true, true
	}
	c.RecvV4, c.RecvV6 = rng.IntN(3) != 0, c.V6 && rng.IntN(3) != 0
	c.OfferV4, c.OfferV6 = rng.IntN(4) != 0, rng.IntN(4) != 0
	c.PeerAS4 = rng.IntN(4) != 0
	c.BigPeer = c.EBGP && c.PeerAS4 && rng.IntN(3) == 0
	return c
}

// ---------------------------------------------------------------------------------------------
// UPDATE descriptions

// NL is one NLRI of a described UPDATE.
type NL struct {
	P  gen.P  `json:"p"`
	ID uint32 `json:"id,omitempty"`
}

// AttrSpec describes the attributes of an UPDATE.
type AttrSpec struct {
	Origin  uint8    `json:"origin"`
	Seq     []uint32 `json:"seq"`
	Set     []uint32 `json:"set,omitempty"`
	NH      uint32   `json:"nh"` // unique per UPDATE; IPv4 next hop 198.18.x.y / IPv6 2001:db8:ffff::x
	MED     *uint32  `json:"med,omitempty"`
	LP      *uint32  `json:"lp,omitempty"`
	Atomic  bool     `json:"atomic,omitempty"`
	Comm    []uint32 `json:"comm,omitempty"`
	LComm   []uint32 `json:"lcomm,omitempty"` // triples
	OrigID  *uint32  `json:"orig_id,omitempty"`
	Cluster []uint32 `json:"cluster,omitempty"`
	Unknown []byte   `json:"unknown,omitempty"` // optional transitive attribute type 222
}

// UpdSpec describes a valid UPDATE.
type UpdSpec struct {
	Wd    []NL     `json:"wd,omitempty"`  // classic withdrawn routes (IPv4)
	Ann   []NL     `json:"ann,omitempty"` // classic NLRI (IPv4)
	MPR   []NL     `json:"mpr,omitempty"` // MP_REACH_NLRI
	MPRv4 bool     `json:"mpr_v4,omitempty"`
	MPU   []NL     `json:"mpu,omitempty"` // MP_UNREACH_NLRI
	MPUv4 bool     `json:"mpu_v4,omitempty"`
	Attr  AttrSpec `json:"attr"`
	// Order lists attribute type codes in the order they are encoded (RFC 4271 allows any order);
	// attributes not listed follow in ascending type order. Empty: ascending type order.
	Order []uint8 `json:"order,omitempty"`
}

// NLRIs converts to wire NLRI.
func NLRIs(xs []NL) []wire.NLRI {
	var out []wire.NLRI
	for _, x := range xs {
		out = append(out, speaker.PToNLRI(x.P).WithID(x.ID))
	}
	return out
}

// NHv4 / NHv6 are the next hops for next-hop id.
func NHv4(id uint32) []byte { return []byte{198, 18, byte(id >> 8), byte(id)} }
func NHv6(id uint32) []byte {
	b := make([]byte, 16)
	copy(b, []byte{0x20, 0x01, 0x0d, 0xb8, 0xff, 0xff})
	b[14], b[15] = byte(id>>8), byte(id)
	return b
}

// MPNextHop is the next hop of the MP_REACH_NLRI of u.
func (u UpdSpec) MPNextHop() []byte {
	if u.MPRv4 {
		return NHv4(u.Attr.NH)
	}
	return NHv6(u.Attr.NH)
}

// Typed returns the typed attributes of u including the MP attributes, and a copy without them (the reference content).
func (u UpdSpec) Typed() (full *wire.PathAttrs, ref *wire.PathAttrs) {
	pa := &wire.PathAttrs{}
	if len(u.Ann)+len(u.MPR) > 0 {
		a := u.Attr
		pa.Origin = wire.U8(a.Origin)
		pa.HasASPath = true
		if len(a.Seq) > 0 {
			pa.ASPath = append(pa.ASPath, wire.Segment{Type: wire.SegSequence, ASNs: a.Seq})
		}
		if len(a.Set) > 0 {
			pa.ASPath = append(pa.ASPath, wire.Segment{Type: wire.SegSet, ASNs: a.Set})
		}
		if len(u.Ann) > 0 {
			pa.NextHop = NHv4(a.NH)
		}
		pa.MED, pa.LocalPref, pa.AtomicAggregate = a.MED, a.LP, a.Atomic
		pa.Communities = a.Comm
		for i := 0; i+2 < len(a.LComm); i += 3 {
			pa.LargeCommunities = append(pa.LargeCommunities, wire.LargeCommunity{Global: a.LComm[i], Local1: a.LComm[i+1], Local2: a.LComm[i+2]})
		}
		pa.OriginatorID = a.OrigID
		pa.ClusterList = a.Cluster
		if a.Unknown != nil {
			pa.Unknown = []wire.Attr{{Flags: wire.FlagOptional | wire.FlagTransitive, Type: 222, Value: a.Unknown}}
		}
	}
	r := *pa
	if len(u.MPR) > 0 {
		f := wire.IPv6Unicast
		if u.MPRv4 {
			f = wire.IPv4Unicast
		}
		pa.MPReach = &wire.MPReach{Family: f, NextHop: u.MPNextHop(), NLRI: NLRIs(u.MPR)}
	}
	if len(u.MPU) > 0 {
		f := wire.IPv6Unicast
		if u.MPUv4 {
			f = wire.IPv4Unicast
		}
		pa.MPUnreach = &wire.MPUnreach{Family: f, NLRI: NLRIs(u.MPU)}
	}
	return pa, &r
}

// Build returns the wire UPDATE and the typed attributes without MP attributes (the reference content).
func (u UpdSpec) Build(o wire.Options) (*wire.Update, *wire.PathAttrs) {
	pa, ref := u.Typed()
	return &wire.Update{Withdrawn: NLRIs(u.Wd), Attrs: Reorder(pa.Build(o), u.Order), NLRI: NLRIs(u.Ann)}, ref
}

// Reorder returns attrs with the type codes listed in order first (in that order) and the rest behind
// them in their given order.
func Reorder(attrs []wire.Attr, order []uint8) []wire.Attr {
	if len(order) == 0 {
		return attrs
	}
	out := make([]wire.Attr, 0, len(attrs))
	taken := make([]bool, len(attrs))
	for _, t := range order {
		for i, a := range attrs {
			if !taken[i] && a.Type == t {
				out, taken[i] = append(out, a), true
			}
		}
	}
	for i, a := range attrs {
		if !taken[i] {
			out = append(out, a)
		}
	}
	return out
}

// AttrTypes lists the type codes of the attributes u is encoded with, ascending.
func (u UpdSpec) AttrTypes() []uint8 {
	pa, _ := u.Typed()
	var out []uint8
	for _, a := range pa.Build(wire.Options{}) {
		out = append(out, a.Type)
	}
	return out
}

// RandOrder draws an attribute order for u: "" (ascending), "mp-first" (RFC 7606 section 5.1: the MP
// attributes lead, in either order), "mp-last" (behind everything else, in either order), "reverse"
// or "shuffle"; it returns the order and its label.
func RandOrder(rng *rand.Rand, u UpdSpec) ([]uint8, string) {
	ts := u.AttrTypes()
	if len(ts) < 2 {
		return nil, "ascending"
	}
	var mp, rest []uint8
	for _, t := range ts {
		if t == wire.AttrMPReach || t == wire.AttrMPUnreach {
			mp = append(mp, t)
		} else {
			rest = append(rest, t)
		}
	}
	if len(mp) == 2 && rng.IntN(2) == 0 {
		mp[0], mp[1] = mp[1], mp[0]
	}
	switch rng.IntN(5) {
	case 0:
		if len(mp) > 0 {
			return append(mp, rest...), "mp-first"
		}
	case 1:
		if len(mp) > 0 {
			return append(rest, mp...), "mp-last"
		}
	case 2:
		out := make([]uint8, len(ts))
		for i, t := range ts {
			out[len(ts)-1-i] = t
		}
		return out, "reverse"
	case 3:
		out := append([]uint8(nil), ts...)
		rng.Shuffle(len(out), func(i, j int) { out[i], out[j] = out[j], out[i] })
		return out, "shuffle"
	}
	return nil, "ascending"
}

// Describe renders u in one line.
func (u UpdSpec) Describe() string {
	f := func(name string, xs []NL) string {
		if len(xs) == 0 {
			return ""
		}
		var p []string
		for _, x := range xs {
			p = append(p, fmt.Sprintf("%s#%d", x.P, x.ID))
		}
		return fmt.Sprintf(" %s[%s]", name, strings.Join(p, " "))
	}
	mpr, mpu := "mp-reach-v6", "mp-unreach-v6"
	if u.MPRv4 {
		mpr = "mp-reach-v4"
	}
	if u.MPUv4 {
		mpu = "mp-unreach-v4"
	}
	order := ""
	if len(u.Order) > 0 {
		order = fmt.Sprintf(" attr-order=%v", u.Order)
	}
	return "UPDATE{" + strings.TrimSpace(f("withdrawn", u.Wd)+f("nlri", u.Ann)+f(mpr, u.MPR)+f(mpu, u.MPU)) + fmt.Sprintf(" nh-id=%d%s}", u.Attr.NH, order)
}

// RandAttrs draws the attributes of a valid UPDATE for session c; nh is the message's unique id.
func RandAttrs(rng *rand.Rand, c Cfg, nh uint32) AttrSpec {
	a := AttrSpec{Origin: uint8(rng.IntN(3)), NH: nh}
	if c.EBGP {
		a.Seq = []uint32{c.PeerAS()}
	}
	for k := rng.IntN(4); k > 0; k-- {
		as := uint32(64512 + rng.IntN(500))
		if (c.PeerAS4 || c.BigPeer) && rng.IntN(4) == 0 {
			as = 4200000100 + uint32(rng.IntN(100))
		}
		a.Seq = append(a.Seq, as)
	}
	if rng.IntN(6) == 0 {
		a.Set = []uint32{64000, 64001 + uint32(rng.IntN(5))}
	}
	if rng.IntN(2) == 0 {
		v := uint32(rng.IntN(1000))
		a.MED = &v
	}
	if !c.EBGP {
		v := uint32(50 + rng.IntN(300))
		a.LP = &v
		if rng.IntN(4) == 0 {
			o := uint32(0x0a0a0a00 + rng.IntN(200))
			a.OrigID = &o
			a.Cluster = []uint32{0x01010101, uint32(0x02020200 + rng.IntN(9))}
		}
	}
	a.Atomic = rng.IntN(8) == 0
	a.Comm = []uint32{0xfde80000 | nh} // unique id of the message
	if rng.IntN(3) == 0 {
		a.Comm = append(a.Comm, 0xfde90000|uint32(rng.IntN(100)))
	}
	if rng.IntN(5) == 0 {
		a.LComm = []uint32{65000, nh, uint32(rng.IntN(9))}
	}
	if rng.IntN(6) == 0 {
		a.Unknown = []byte{byte(nh), 0xaa, byte(rng.IntN(256))}
	}
	return a
}

// Fam maps the harness' v4 flag to a wire family.
func Fam(v4 bool) wire.Family {
	if v4 {
		return wire.IPv4Unicast
	}
	return wire.IPv6Unicast
}
