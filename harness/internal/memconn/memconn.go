// Package memconn is an in-memory, buffered, full-duplex net.Conn for driving bio-rd's BGP speaker
// from a harness that plays the remote peer.
//
// One *Conn object has two faces:
//
//   - the net.Conn methods (Read, Write, Close, LocalAddr, RemoteAddr, Set*Deadline) are what the
//     system under test (SUT, bio-rd) calls;
//   - every other method is the harness side: Inject bytes for the SUT to read, look at what the
//     SUT wrote (every Write is recorded with a per-connection and a process-wide sequence
//     number), learn that the SUT closed the connection, make the SUT's reads/writes fail, and ask
//     whether the SUT's reader is parked in Read with nothing left to read.
//
// Unlike net.Pipe nothing the SUT does ever blocks on the harness: Write always completes
// immediately (it only appends to the record), so bio-rd's update sender and FSM cannot stall
// because the harness is slow to look.
package memconn

import (
	"errors"
	"io"
	"net"
	"os"
	"sync"
	"sync/atomic"
	"time"
)

// globalSeq orders events (SUT writes, SUT closes, harness injections) across all connections of the process.
var globalSeq atomic.Uint64

// nextPort hands out distinct remote ports so that every connection has its own remote address.
var nextPort atomic.Uint32

func init() { nextPort.Store(20000) }

// NextPort returns a process-unique port number in 20001…65000 (wraps after 45 000 connections; a
// wrapped port can only coincide with a connection created 45 000 connections earlier).
func NextPort() int {
	n := nextPort.Add(1)
	return int(20001 + (n-20001)%45000)
}

// WriteRec is one Write call of the SUT.
type WriteRec struct {
	Seq    int       // 0,1,2,… per connection
	Global uint64    // process-wide event order
	Off    int       // offset of Data in the connection's output stream
	Data   []byte    // copy of what was written
	At     time.Time // wall clock (diagnostics only)
}

// Status is the result of waiting for the SUT's reader.
type Status int

const (
	// ReaderIdle: a Read of the SUT is parked and every injected byte has been consumed.
	ReaderIdle Status = iota
	// SUTClosed: the SUT closed the connection.
	SUTClosed
	// TimedOut: neither happened in time.
	TimedOut
)

func (s Status) String() string {
	switch s {
	case ReaderIdle:
		return "reader-idle"
	case SUTClosed:
		return "closed-by-sut"
	}
	return "timeout"
}

// ErrInjected is the default error of FailWrites / FailReads.
var ErrInjected = errors.New("memconn: injected I/O failure")

// Conn implements net.Conn for the SUT and the observation/fault API for the harness.
type Conn struct {
	local, remote *net.TCPAddr

	mu      sync.Mutex
	changed chan struct{} // closed and replaced on every state change

	// harness -> SUT
	in        []byte
	injected  uint64 // bytes injected so far
	consumed  uint64 // bytes the SUT has read so far
	inEOF     bool   // harness closed its side: SUT reads drain, then io.EOF
	readErr   error  // injected: SUT reads fail at once
	readers   int    // SUT Read calls parked waiting for input
	readCalls uint64 // SUT Read calls that returned data

	// SUT -> harness
	out         []byte
	writes      []WriteRec
	writeErr    error    // injected
	writeOKLeft int      // with writeErr set: number of writes that still succeed (-1: fail now)
	failedW     int      // writes refused because of the injected fault
	failedData  [][]byte // what the SUT tried to write in those calls
	lateW       int      // writes attempted after the SUT itself closed the connection

	closed      bool
	closedCh    chan struct{}
	closeGlobal uint64
	closeCalls  int

	rdl, wdl time.Time
}

// New creates a connection whose SUT side reports the given addresses. A nil remote gets
// 127.0.0.1 with a fresh port; a remote with port 0 gets a fresh port; nil local is 127.0.0.1:179.
func New(local, remote *net.TCPAddr) *Conn {
	if local == nil {
		local = &net.TCPAddr{IP: net.IPv4(127, 0, 0, 1), Port: 179}
	}
	if remote == nil {
		remote = &net.TCPAddr{IP: net.IPv4(127, 0, 0, 1)}
	}
	r := *remote
	if r.Port == 0 {
		r.Port = NextPort()
	}
	l := *local
	return &Conn{local: &l, remote: &r, changed: make(chan struct{}), closedCh: make(chan struct{}), writeOKLeft: -1}
}

// notify must be called with mu held.
func (c *Conn) notify() {
	close(c.changed)
	c.changed = make(chan struct{})
}

// ---------------------------------------------------------------------------------------------
// net.Conn (SUT side)

func (c *Conn) Read(p []byte) (int, error) {
	if len(p) == 0 {
		return 0, nil
	}
	c.mu.Lock()
	parked := false
	defer func() {
		if parked {
			c.readers--
		}
		c.mu.Unlock()
	}()
	for {
		switch {
		case c.closed:
			return 0, net.ErrClosed
		case c.readErr != nil:
			return 0, c.readErr
		case len(c.in) > 0:
			n := copy(p, c.in)
			c.in = c.in[n:]
			c.consumed += uint64(n)
			c.readCalls++
			c.notify()
			return n, nil
		case c.inEOF:
			return 0, io.EOF
		}
		var timer <-chan time.Time
		if !c.rdl.IsZero() {
			d := time.Until(c.rdl)
			if d <= 0 {
				return 0, os.ErrDeadlineExceeded
			}
			t := time.NewTimer(d)
			defer t.Stop()
			timer = t.C
		}
		if !parked {
			parked = true
			c.readers++
			c.notify()
		}
		ch := c.changed
		c.mu.Unlock()
		select {
		case <-ch:
		case <-timer:
		}
		c.mu.Lock()
	}
}

func (c *Conn) Write(p []byte) (int, error) {
	c.mu.Lock()
	defer c.mu.Unlock()
	if c.closed {
		c.lateW++
		return 0, net.ErrClosed
	}
	if !c.wdl.IsZero() && !time.Now().Before(c.wdl) {
		return 0, os.ErrDeadlineExceeded
	}
	if c.writeErr != nil {
		if c.writeOKLeft <= 0 {
			c.failedW++
			c.failedData = append(c.failedData, append([]byte(nil), p...))
			c.notify()
			return 0, c.writeErr
		}
		c.writeOKLeft--
	}
	d := append([]byte(nil), p...)
	c.writes = append(c.writes, WriteRec{Seq: len(c.writes), Global: globalSeq.Add(1), Off: len(c.out), Data: d, At: time.Now()})
	c.out = append(c.out, d...)
	c.notify()
	return len(p), nil
}

// Close is the SUT closing the connection.
func (c *Conn) Close() error {
	c.mu.Lock()
	defer c.mu.Unlock()
	c.closeCalls++
	if c.closed {
		return net.ErrClosed
	}
	c.closed = true
	c.closeGlobal = globalSeq.Add(1)
	close(c.closedCh)
	c.notify()
	return nil
}

func (c *Conn) LocalAddr() net.Addr  { return c.local }
func (c *Conn) RemoteAddr() net.Addr { return c.remote }

func (c *Conn) SetDeadline(t time.Time) error {
	c.mu.Lock()
	c.rdl, c.wdl = t, t
	c.notify()
	c.mu.Unlock()
	return nil
}

func (c *Conn) SetReadDeadline(t time.Time) error {
	c.mu.Lock()
	c.rdl = t
	c.notify()
	c.mu.Unlock()
	return nil
}

func (c *Conn) SetWriteDeadline(t time.Time) error {
	c.mu.Lock()
	c.wdl = t
	c.mu.Unlock()
	return nil
}

// ---------------------------------------------------------------------------------------------
// harness side

// RemotePort is the port of the address the SUT sees as the peer's (distinct per connection).
func (c *Conn) RemotePort() int { return c.remote.Port }

// RemoteString is RemoteAddr().String().
func (c *Conn) RemoteString() string { return c.remote.String() }

// Inject makes b available to the SUT's reader (the harness "sends" b). It never blocks. It returns
// false if the SUT already closed the connection (the bytes are dropped, as a TCP stack would).
func (c *Conn) Inject(b []byte) bool {
	c.mu.Lock()
	defer c.mu.Unlock()
	if c.closed || c.inEOF {
		return false
	}
	c.in = append(c.in, b...)
	c.injected += uint64(len(b))
	globalSeq.Add(1)
	c.notify()
	return true
}

// PeerClose is the harness closing its side in an orderly way: the SUT's reader drains what was
// injected and then gets io.EOF. What the SUT writes afterwards is still recorded.
func (c *Conn) PeerClose() {
	c.mu.Lock()
	c.inEOF = true
	c.notify()
	c.mu.Unlock()
}

// FailReads makes every Read of the SUT (including one that is parked now) fail with err (nil: ErrInjected).
func (c *Conn) FailReads(err error) {
	if err == nil {
		err = ErrInjected
	}
	c.mu.Lock()
	c.readErr = err
	c.notify()
	c.mu.Unlock()
}

// FailWrites makes the SUT's writes fail with err (nil: ErrInjected) after okBefore more writes succeeded.
func (c *Conn) FailWrites(err error, okBefore int) {
	if err == nil {
		err = ErrInjected
	}
	c.mu.Lock()
	c.writeErr = err
	c.writeOKLeft = okBefore
	c.mu.Unlock()
}

// HealWrites removes the write fault.
func (c *Conn) HealWrites() {
	c.mu.Lock()
	c.writeErr = nil
	c.writeOKLeft = -1
	c.mu.Unlock()
}

// FailedWrites is the number of SUT writes refused by the injected fault; LateWrites the number of
// writes the SUT attempted after closing the connection itself.
func (c *Conn) FailedWrites() int { c.mu.Lock(); defer c.mu.Unlock(); return c.failedW }
func (c *Conn) LateWrites() int   { c.mu.Lock(); defer c.mu.Unlock(); return c.lateW }

// FailedWriteData returns what the SUT tried to write in the calls refused by the injected fault, in order.
func (c *Conn) FailedWriteData() [][]byte {
	c.mu.Lock()
	defer c.mu.Unlock()
	return append([][]byte(nil), c.failedData...)
}

// Closed is closed when the SUT closes the connection.
func (c *Conn) Closed() <-chan struct{} { return c.closedCh }

// IsClosed reports whether the SUT closed the connection.
func (c *Conn) IsClosed() bool { c.mu.Lock(); defer c.mu.Unlock(); return c.closed }

// CloseSeq is the process-wide sequence number of the SUT's Close (0: not closed).
func (c *Conn) CloseSeq() uint64 { c.mu.Lock(); defer c.mu.Unlock(); return c.closeGlobal }

// Out returns a copy of everything the SUT wrote so far.
func (c *Conn) Out() []byte { c.mu.Lock(); defer c.mu.Unlock(); return append([]byte(nil), c.out...) }

// OutLen is the number of bytes the SUT wrote so far.
func (c *Conn) OutLen() int { c.mu.Lock(); defer c.mu.Unlock(); return len(c.out) }

// OutFrom returns a copy of the output stream from offset off.
func (c *Conn) OutFrom(off int) []byte {
	c.mu.Lock()
	defer c.mu.Unlock()
	if off >= len(c.out) {
		return nil
	}
	return append([]byte(nil), c.out[off:]...)
}

// Writes returns the recorded writes (the Data slices are shared and must not be modified).
func (c *Conn) Writes() []WriteRec {
	c.mu.Lock()
	defer c.mu.Unlock()
	return append([]WriteRec(nil), c.writes...)
}

// WriteCount is the number of successful SUT writes so far.
func (c *Conn) WriteCount() int { c.mu.Lock(); defer c.mu.Unlock(); return len(c.writes) }

// Pending is the number of injected bytes the SUT has not read yet.
func (c *Conn) Pending() int { c.mu.Lock(); defer c.mu.Unlock(); return len(c.in) }

// Consumed is the number of injected bytes the SUT has read.
func (c *Conn) Consumed() uint64 { c.mu.Lock(); defer c.mu.Unlock(); return c.consumed }

// ReaderIdle reports whether a Read of the SUT is parked right now with nothing left to read.
// For bio-rd this means: the receiver goroutine has handed every complete message that was
// injected to the FSM (its hand-over channel is unbuffered) and came back for more.
func (c *Conn) ReaderIdle() bool {
	c.mu.Lock()
	defer c.mu.Unlock()
	return c.readerIdleLocked()
}

func (c *Conn) readerIdleLocked() bool {
	return !c.closed && c.readers > 0 && len(c.in) == 0 && c.readErr == nil && !c.inEOF
}

// WaitFor blocks until pred (evaluated with the connection locked; it may use the *Locked-free
// accessors of View only) holds or the timeout passes.
func (c *Conn) waitFor(timeout time.Duration, pred func() bool) bool {
	var timer *time.Timer
	for {
		c.mu.Lock()
		if pred() {
			c.mu.Unlock()
			if timer != nil {
				timer.Stop()
			}
			return true
		}
		ch := c.changed
		c.mu.Unlock()
		if timer == nil {
			timer = time.NewTimer(timeout)
		}
		select {
		case <-ch:
		case <-timer.C:
			c.mu.Lock()
			ok := pred()
			c.mu.Unlock()
			return ok
		}
	}
}

// WaitReaderIdle waits until the SUT's reader is parked at the end of the input or the SUT closed the connection.
func (c *Conn) WaitReaderIdle(timeout time.Duration) Status {
	st := TimedOut
	c.waitFor(timeout, func() bool {
		if c.closed {
			st = SUTClosed
			return true
		}
		if c.readerIdleLocked() {
			st = ReaderIdle
			return true
		}
		return false
	})
	return st
}

// WaitClosed waits until the SUT closed the connection.
func (c *Conn) WaitClosed(timeout time.Duration) bool {
	return c.waitFor(timeout, func() bool { return c.closed })
}

// WaitOut waits until pred(output stream so far) holds; pred must not retain the slice.
// It also returns (with pred's last value) when the SUT closes the connection, since nothing more can arrive.
func (c *Conn) WaitOut(timeout time.Duration, pred func(out []byte) bool) bool {
	ok := false
	c.waitFor(timeout, func() bool {
		ok = pred(c.out)
		return ok || c.closed
	})
	return ok
}

// WaitOutLen waits until at least n bytes were written by the SUT.
func (c *Conn) WaitOutLen(timeout time.Duration, n int) bool {
	return c.WaitOut(timeout, func(out []byte) bool { return len(out) >= n })
}

// WaitFailedWrite waits until the injected write fault refused at least n writes.
func (c *Conn) WaitFailedWrite(timeout time.Duration, n int) bool {
	return c.waitFor(timeout, func() bool { return c.failedW >= n })
}

// Seq returns the current process-wide event counter (to bracket observations).
func Seq() uint64 { return globalSeq.Load() }
