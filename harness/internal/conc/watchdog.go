package conc

import (
	"strings"
	"sync/atomic"
	"time"
)

// Progress is the per-operation progress counter of a scenario.
type Progress struct {
	n atomic.Int64
}

func (p *Progress) Done()          { p.n.Add(1) }
func (p *Progress) Load() int64     { return p.n.Load() }

// Verdict of the no-progress oracle.
type Verdict struct {
	Kind     string   `json:"kind"` // "" (completed) | deadlock | stalled (no progress, nobody parked in bio-rd: inconclusive)
	Analysis Analysis `json:"analysis"`
	Witness  string   `json:"witness,omitempty"` // parked goroutines with their bio-rd frames (from the last dump)
	Dump     string   `json:"dump,omitempty"`    // last full dump
	Ops      int64    `json:"ops"`
}

// neverHolds lists owners whose methods release their lock before calling out (ClientManager unlocks before
// master.UpdateNewClient); an outer frame of such a type is not taken as a held lock.
var neverHolds = map[string]bool{"routingtable.ClientManager": true}

// relevant keeps parked workers and, of bio-rd's own goroutines, those that wait for a mutex or to send: an FSM or
// ticker loop waiting in select / receive is their normal idle state. One of bio-rd's goroutines that waits in a select or
// receive below a method of a type whose lock another parked goroutine waits for is kept as well (a lock held across a
// channel operation, e.g. an event handed to an FSM from inside a critical section).
func relevant(ps []Parked) []Parked {
	waited := map[string]bool{}
	for _, p := range ps {
		if strings.HasPrefix(p.State, "sync.Mutex") || strings.HasPrefix(p.State, "sync.RWMutex") {
			waited[p.At.Owner()] = true
		}
	}
	var out []Parked
	for _, p := range ps {
		if !p.Worker && (strings.HasPrefix(p.State, "select") || p.State == "chan receive" || p.State == "semacquire" || p.State == "sync.Cond.Wait") {
			holdsWaited := false
			for _, o := range p.Holds {
				if waited[o] && !neverHolds[o] {
					holdsWaited = true
				}
			}
			if !holdsWaited || p.State == "semacquire" || p.State == "sync.Cond.Wait" {
				continue
			}
		}
		var h []string
		for _, x := range p.Holds {
			if !neverHolds[x] {
				h = append(h, x)
			}
		}
		p.Holds = h
		out = append(out, p)
	}
	return out
}

// Watch runs the no-progress oracle until done is closed: the counter is sampled every interval; when it is
// unchanged over `samples` consecutive samples and every one of the dumps taken at those samples shows at least one
// worker goroutine parked on a mutex / channel directly below a bio-rd frame, the verdict is deadlock. Unchanged
// without such a goroutine in `samples` consecutive dumps: stalled (inconclusive).
func Watch(p *Progress, done <-chan struct{}, interval time.Duration, samples int) Verdict {
	last := p.Load()
	same := 0          // consecutive samples with unchanged counter
	parkedRuns := 0    // … in which a worker was parked in bio-rd
	var lastParked []Parked
	var lastDump string
	t := time.NewTicker(interval)
	defer t.Stop()
	// the first sample is taken at once so that three samples span two intervals
	for first := true; ; first = false {
		if !first {
			select {
			case <-done:
				return Verdict{Ops: p.Load()}
			case <-t.C:
			}
		} else {
			select {
			case <-done:
				return Verdict{Ops: p.Load()}
			default:
			}
		}
		cur := p.Load()
		if cur != last {
			last, same, parkedRuns = cur, 0, 0
		}
		same++
		d := Dump()
		gs := Parse(d)
		ps := relevant(ParkedInBio(gs))
		worker := false
		for _, x := range ps {
			if x.Worker {
				worker = true
			}
		}
		if active(gs) {
			// somebody in the harness or in bio-rd can still run (or sleeps on a timer): not a deadlock, only slow
			worker = false
		}
		if worker {
			parkedRuns++
			lastParked, lastDump = ps, d
		} else {
			parkedRuns = 0
		}
		if same >= samples && parkedRuns >= samples {
			return Verdict{Kind: "deadlock", Analysis: Analyse(lastParked), Witness: Render(lastParked), Dump: lastDump, Ops: cur}
		}
		if same >= samples+7 && parkedRuns == 0 {
			// give up: nothing moves and nobody waits inside bio-rd
			select {
			case <-done:
				return Verdict{Ops: p.Load()}
			default:
			}
			return Verdict{Kind: "stalled", Dump: d, Ops: cur}
		}
	}
}

// active reports whether somebody can still complete operations or release a table lock: a goroutine other than the
// watchdog's own that is running, runnable, in a system call or asleep on a timer and either has harness code on its
// stack (a worker or a harness helper) or is one of bio-rd's own goroutines inside table code (it may hold a table
// lock and merely be slow). bio-rd's periodic goroutines waking up (update sender ticker, FSM timers) do not count.
func active(gs []G) bool {
	for _, g := range gs {
		switch g.State {
		case "running", "runnable", "syscall", "sleep", "IO wait":
		default:
			continue
		}
		harness, table, self := false, false, false
		for _, f := range g.Frames {
			if f.Harness() {
				harness = true
			}
			if strings.HasPrefix(f.Func, bioPrefix+"routingtable") {
				table = true
			}
			if strings.HasSuffix(f.Func, "conc.Watch") || strings.HasSuffix(f.Func, "conc.Dump") {
				self = true
			}
		}
		if (harness || table) && !self {
			return true
		}
	}
	return false
}
