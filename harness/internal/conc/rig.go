package conc

import (
	"errors"
	"fmt"
	"io"
	"math/rand/v2"
	"runtime"
	"strings"
	"sync"
	"sync/atomic"
	"time"

	bnet "github.com/bio-routing/bio-rd/net"
	"github.com/bio-routing/bio-rd/protocols/bgp/server"
	"github.com/bio-routing/bio-rd/route"
	"github.com/bio-routing/bio-rd/routingtable"
	"github.com/bio-routing/bio-rd/routingtable/adjRIBIn"
	"github.com/bio-routing/bio-rd/routingtable/adjRIBOut"
	"github.com/bio-routing/bio-rd/routingtable/filter"
	"github.com/bio-routing/bio-rd/routingtable/locRIB"
	"github.com/bio-routing/bio-rd/routingtable/vrf"

	"verifharness/internal/tbl"
)

// Client is a route table client that does what bio-rd's own clients of a RIB do with a callback (the RIS
// ribClient converts every path with ToProto): it reads the whole path through bio-rd's own conversion function and
// counts. It never calls back into a table.
type Client struct {
	Name     string
	adds     atomic.Int64
	removes  atomic.Int64
	others   atomic.Int64
	disposed atomic.Bool
}

func NewClient(name string) *Client { return &Client{Name: name} }

func (c *Client) AddPath(pfx *bnet.Prefix, p *route.Path) error {
	_ = pfx.ToProto()
	_ = p.ToProto()
	c.adds.Add(1)
	return nil
}
func (c *Client) AddPathInitialDump(pfx *bnet.Prefix, p *route.Path) error { return c.AddPath(pfx, p) }
func (c *Client) EndOfRIB()                                                 { c.others.Add(1) }
func (c *Client) RemovePath(pfx *bnet.Prefix, p *route.Path) bool {
	_ = pfx.ToProto()
	_ = p.ToProto()
	c.removes.Add(1)
	return true
}
func (c *Client) ReplacePath(pfx *bnet.Prefix, o, n *route.Path) {
	_ = o.ToProto()
	_ = n.ToProto()
	c.others.Add(1)
}
func (c *Client) RefreshRoute(pfx *bnet.Prefix, ps []*route.Path) {
	for _, p := range ps {
		_ = p.ToProto()
	}
	c.others.Add(1)
}
func (c *Client) Dispose()                         { c.disposed.Store(true) }
func (c *Client) ReplaceFilterChain(filter.Chain)  {}
func (c *Client) Events() int64                    { return c.adds.Load() + c.removes.Load() + c.others.Load() }

// GateWriter stands in for a peer connection: Write blocks while the gate is closed (a peer that stopped reading) and
// fails while the connection is broken (a peer that went away: broken pipe / reset).
type GateWriter struct {
	mu      sync.Mutex
	cond    *sync.Cond
	closed  bool
	broken  bool
	n       int64
	blocked int64
	failed  int64
}

// ErrPeerGone is what Write returns while the connection is broken.
var ErrPeerGone = errors.New("write: broken pipe (peer gone)")

func NewGateWriter() *GateWriter { g := &GateWriter{}; g.cond = sync.NewCond(&g.mu); return g }

func (g *GateWriter) Write(b []byte) (int, error) {
	g.mu.Lock()
	defer g.mu.Unlock()
	if g.closed && !g.broken {
		g.blocked++
	}
	for g.closed && !g.broken {
		g.cond.Wait()
	}
	if g.broken {
		g.failed++
		return 0, ErrPeerGone
	}
	g.n += int64(len(b))
	return len(b), nil
}
func (g *GateWriter) Block()   { g.mu.Lock(); g.closed = true; g.mu.Unlock() }
func (g *GateWriter) Unblock() { g.mu.Lock(); g.closed = false; g.cond.Broadcast(); g.mu.Unlock() }

// Break makes every Write fail from now on (writers blocked at the gate fail as well); Mend ends that.
func (g *GateWriter) Break() { g.mu.Lock(); g.broken = true; g.cond.Broadcast(); g.mu.Unlock() }
func (g *GateWriter) Mend()  { g.mu.Lock(); g.broken = false; g.mu.Unlock() }
func (g *GateWriter) BlockedWrites() int64 {
	g.mu.Lock()
	defer g.mu.Unlock()
	return g.blocked
}

// FailedWrites is the number of writes refused while the connection was broken.
func (g *GateWriter) FailedWrites() int64 {
	g.mu.Lock()
	defer g.mu.Unlock()
	return g.failed
}

var _ io.Writer = (*GateWriter)(nil)

// Prefixes the workloads use: a few, so that operations collide; one covering prefix for LPM / GetLonger.
var Pfxs = func() []*bnet.Prefix {
	var out []*bnet.Prefix
	for i := 0; i < 6; i++ {
		out = append(out, bnet.NewPfx(bnet.IPv4(0x0a000000+uint32(i)<<16), 16).Ptr())
	}
	out = append(out, bnet.NewPfx(bnet.IPv4(0x0a000000), 8).Ptr())
	return out
}()

// Session is one emulated BGP session: what fsmAddressFamily.init builds.
type Session struct {
	Spec   tbl.SessionSpec
	Attrs  routingtable.SessionAttrs
	In     *adjRIBIn.AdjRIBIn
	Out    *adjRIBOut.AdjRIBOut
	Sender *server.UpdateSender // nil without sender
	Gate   *GateWriter
	Tap    *Client // extra client of the Adj-RIB-Out when there is no sender
}

// Rig is a VRF with a Loc-RIB and emulated sessions.
type Rig struct {
	VRF      *vrf.VRF
	Loc      *locRIB.LocRIB
	Sessions []*Session
	nextID   atomic.Uint32

	// measured
	Goroutines atomic.Int64
	Inflight   atomic.Int64
	MaxInfl    atomic.Int64
	panicMu    sync.Mutex
	panics     []*PanicRec
	// NoStatic: local writers use BGP paths only (see Assume in C25/C26: a static route offered to a route-reflector
	// client with a started update sender crashes the sender goroutine, which is C09's finding)
	NoStatic bool
	OpsByKind  sync.Map // kind -> *atomic.Int64
}

// SessionKind selects the attributes of an emulated session.
type SessionKind struct {
	IBGP     bool
	RRClient bool
	AddPath  bool // add-path TX on the Adj-RIB-Out
	Sender   bool // attach a hook-built, started UpdateSender (else a tap client)
}

func NewRig(name string) *Rig {
	v := vrf.NewUntrackedVRF(name, 0)
	loc, _ := v.CreateIPv4UnicastLocRIB("inet.0")
	return &Rig{VRF: v, Loc: loc}
}

// AddSession does what fsmAddressFamily.init does, in the same order.
func (r *Rig) AddSession(i int, k SessionKind) *Session {
	spec := tbl.SessionSpec{IBGP: k.IBGP, LocalASN: 65000, PeerASN: 65000, RouterID: 0x0a000001, PeerIP: 0xc0a80100 + uint32(i) + 2}
	if !k.IBGP {
		spec.PeerASN = 65100 + uint32(i)
	}
	attrs := spec.Attrs()
	attrs.RouteReflectorClient = k.RRClient
	if k.RRClient {
		attrs.ClusterID = 0x0a000001
	}
	attrs.AddPathTX = k.AddPath
	s := &Session{Spec: spec, Attrs: attrs}
	s.In = adjRIBIn.New(filter.NewAcceptAllFilterChain(), r.VRF, attrs)
	r.VRF.AddContributingASN(spec.LocalASN)
	s.In.Register(r.Loc)
	s.Out = adjRIBOut.New(r.Loc, attrs, filter.NewAcceptAllFilterChain())
	if k.Sender {
		s.Gate = NewGateWriter()
		s.Sender = server.VerifNewUpdateSender(server.VerifUpdateSenderConfig{Out: s.Gate, AFI: 1, SAFI: 1, AddPath: k.AddPath, IBGP: k.IBGP, RRClient: k.RRClient, ASN4: true, LocalASN: spec.LocalASN})
		s.Sender.Start(5 * time.Millisecond)
		s.Out.Register(s.Sender)
	} else {
		s.Tap = NewClient(fmt.Sprintf("tap%d", i))
		s.Out.Register(s.Tap)
	}
	opt := routingtable.ClientOptions{BestOnly: true}
	if k.AddPath {
		opt = routingtable.ClientOptions{MaxPaths: 4}
	}
	r.Loc.RegisterWithOptions(s.Out, opt)
	return s
}

// DisposeSession does what fsmAddressFamily.dispose does, in the same order.
func (r *Rig) DisposeSession(s *Session) {
	r.VRF.RemoveContributingASN(s.Spec.LocalASN)
	s.In.Unregister(r.Loc)
	r.Loc.Unregister(s.Out)
	if s.Sender != nil {
		s.Out.Unregister(s.Sender)
		s.Sender.Destroy()
	} else {
		s.Out.Unregister(s.Tap)
	}
}

// ID hands out a unique path id.
func (r *Rig) ID() uint32 { return r.nextID.Add(1) }

// Count adds to a per-kind operation counter.
func (r *Rig) Count(kind string) {
	v, _ := r.OpsByKind.LoadOrStore(kind, new(atomic.Int64))
	v.(*atomic.Int64).Add(1)
}

// Ops returns the per-kind counters.
func (r *Rig) Ops() map[string]int64 {
	out := map[string]int64{}
	r.OpsByKind.Range(func(k, v any) bool { out[k.(string)] = v.(*atomic.Int64).Load(); return true })
	return out
}

// PanicRec is a recovered panic of one operation.
type PanicRec struct {
	Kind  string `json:"kind"`  // operation kind
	Site  string `json:"site"`  // innermost bio-rd function on the panicking stack
	Text  string `json:"text"`  // first witness: panic value and stack
	Count int    `json:"count"`
}

// Op runs one operation: in-flight gauge, progress counter, per-kind counter. A panic of the operation is recorded
// (bio-rd would have crashed) and the worker continues with its next operation.
func (r *Rig) Op(p *Progress, kind string, fn func()) {
	n := r.Inflight.Add(1)
	for {
		m := r.MaxInfl.Load()
		if n <= m || r.MaxInfl.CompareAndSwap(m, n) {
			break
		}
	}
	func() {
		defer func() {
			if v := recover(); v != nil {
				buf := make([]byte, 6000)
				buf = buf[:runtime.Stack(buf, false)]
				r.recordPanic(kind, fmt.Sprintf("%v\n%s", v, buf))
			}
		}()
		fn()
	}()
	r.Inflight.Add(-1)
	r.Count(kind)
	p.Done()
}

func (r *Rig) recordPanic(kind, text string) {
	site := "?"
	for _, l := range strings.Split(text, "\n") {
		if strings.HasPrefix(l, bioPrefix) {
			if i := strings.LastIndex(l, "("); i > 0 {
				l = l[:i]
			}
			site = ShortFunc(l)
			break
		}
	}
	r.panicMu.Lock()
	defer r.panicMu.Unlock()
	for _, pr := range r.panics {
		if pr.Kind == kind && pr.Site == site {
			pr.Count++
			return
		}
	}
	r.panics = append(r.panics, &PanicRec{Kind: kind, Site: site, Text: text, Count: 1})
}

// PanicList returns the recorded panics.
func (r *Rig) PanicList() []PanicRec {
	r.panicMu.Lock()
	defer r.panicMu.Unlock()
	out := make([]PanicRec, 0, len(r.panics))
	for _, p := range r.panics {
		out = append(out, *p)
	}
	return out
}

// Worker is one goroutine of a workload.
type Worker struct {
	Name string
	Fn   func(rng *rand.Rand)
}

// Run starts all workers behind a common start barrier and waits for them. A panic in a worker is recorded.
func (r *Rig) Run(ws []Worker, seed uint64) {
	var wg sync.WaitGroup
	start := make(chan struct{})
	for i, w := range ws {
		wg.Add(1)
		r.Goroutines.Add(1)
		go func(i int, w Worker) {
			defer wg.Done()
			defer func() {
				if p := recover(); p != nil {
					buf := make([]byte, 6000)
					buf = buf[:runtime.Stack(buf, false)]
					r.recordPanic("worker:"+w.Name, fmt.Sprintf("%v\n%s", p, buf))
				}
			}()
			rng := rand.New(rand.NewPCG(seed, uint64(i)*0x9e3779b97f4a7c15+1))
			<-start
			w.Fn(rng)
		}(i, w)
	}
	close(start)
	wg.Wait()
}

// ---------------------------------------------------------------------------------------------------------------
// paths

// LearnedPath is a path as an FSM would hand it to the session's Adj-RIB-In.
func (r *Rig) LearnedPath(s *Session, rng *rand.Rand) *route.Path {
	ps := tbl.PathSpec{ID: r.ID(), LP: 100, Source: s.Spec.PeerIP, NextHop: s.Spec.PeerIP, EBGP: !s.Spec.IBGP, BGPID: s.Spec.PeerIP,
		MED: uint32(rng.IntN(3)), Origin: uint8(rng.IntN(2))}
	if s.Spec.IBGP {
		ps.ASPath = []tbl.Seg{{ASNs: []uint32{64900 + uint32(rng.IntN(3))}}}
		ps.LP = []uint32{100, 100, 200}[rng.IntN(3)]
	} else {
		ps.ASPath = []tbl.Seg{{ASNs: []uint32{s.Spec.PeerASN, 64900 + uint32(rng.IntN(3))}}}
		ps.LP = 0
	}
	return ps.Build()
}

// LocalPath is a path put into the Loc-RIB directly (static route or another protocol's route).
func (r *Rig) LocalPath(id uint32, rng *rand.Rand) tbl.PathSpec {
	if rng.IntN(4) == 0 && !r.NoStatic {
		return tbl.PathSpec{Static: true, ID: id}
	}
	return tbl.PathSpec{ID: id, LP: []uint32{100, 100, 200}[rng.IntN(3)], ASPath: []tbl.Seg{{ASNs: []uint32{64800, 64801 + uint32(rng.IntN(2))}}}, Source: 0x0a0a0001 + uint32(rng.IntN(3)),
		NextHop: 0x0b000001, EBGP: rng.IntN(2) == 0, BGPID: uint32(1 + rng.IntN(3))}
}

// Policies the replacers cycle through.
func Policy(i int) filter.Chain {
	lp := uint32(150 + i%3*50)
	med := uint32(i % 4)
	switch i % 5 {
	case 0:
		return filter.NewAcceptAllFilterChain()
	case 1:
		return tbl.PolicySpec{SetLP: &lp}.Chain()
	case 2:
		return tbl.PolicySpec{Reject: []string{Pfxs[i%6].String(), Pfxs[(i+1)%6].String()}, SetMED: &med}.Chain()
	case 3:
		return tbl.PolicySpec{Prepend: &[2]uint32{64700, 1 + uint32(i%2)}}.Chain()
	}
	return tbl.PolicySpec{RejectAll: true}.Chain()
}

// ---------------------------------------------------------------------------------------------------------------
// workers (each one stands for a goroutine bio-rd itself runs; see the comment of each)

// Announcer: the FSM goroutine of a session feeding its Adj-RIB-In (updates and withdrawals).
func (r *Rig) Announcer(s *Session, p *Progress, n int) Worker {
	return Worker{Name: "announcer", Fn: func(rng *rand.Rand) {
		for i := 0; i < n; i++ {
			pfx := Pfxs[rng.IntN(6)]
			if rng.IntN(3) > 0 {
				path := r.LearnedPath(s, rng)
				r.Op(p, "adjRIBIn.AddPath", func() { s.In.AddPath(pfx, path) })
			} else {
				r.Op(p, "adjRIBIn.RemovePath", func() {
					s.In.RemovePath(pfx, &route.Path{Type: route.BGPPathType, BGPPath: &route.BGPPath{}})
				})
			}
			if i%4 == 0 {
				runtime.Gosched()
			}
		}
	}}
}

// LocMutator: static route configuration / another protocol writing the Loc-RIB directly.
func (r *Rig) LocMutator(p *Progress, n int) Worker {
	return Worker{Name: "loc-mutator", Fn: func(rng *rand.Rand) {
		type st struct {
			pfx  int
			spec tbl.PathSpec
		}
		var stored []st
		for i := 0; i < n; i++ {
			x := rng.IntN(10)
			switch {
			case x < 5 || len(stored) == 0:
				e := st{pfx: rng.IntN(6), spec: r.LocalPath(r.ID(), rng)}
				stored = append(stored, e)
				r.Op(p, "locRIB.AddPath", func() { r.Loc.AddPath(Pfxs[e.pfx], e.spec.Build()) })
			case x < 8:
				j := rng.IntN(len(stored))
				e := stored[j]
				stored = append(stored[:j], stored[j+1:]...)
				r.Op(p, "locRIB.RemovePath", func() { r.Loc.RemovePath(Pfxs[e.pfx], e.spec.Build()) })
			default:
				j := rng.IntN(len(stored))
				e := stored[j]
				ne := st{pfx: e.pfx, spec: r.LocalPath(r.ID(), rng)}
				stored[j] = ne
				r.Op(p, "locRIB.ReplacePath", func() { r.Loc.ReplacePath(Pfxs[e.pfx], e.spec.Build(), ne.spec.Build()) })
			}
			if i%4 == 0 {
				runtime.Gosched()
			}
		}
	}}
}

// InReplacer: configuration reload replacing import policies (peer.replaceImportFilterChain).
func (r *Rig) InReplacer(p *Progress, n int) Worker {
	return Worker{Name: "import-policy", Fn: func(rng *rand.Rand) {
		for i := 0; i < n; i++ {
			s := r.Sessions[rng.IntN(len(r.Sessions))]
			c := Policy(rng.IntN(20))
			r.Op(p, "adjRIBIn.ReplaceFilterChain", func() { s.In.ReplaceFilterChain(c) })
			runtime.Gosched()
		}
	}}
}

// OutReplacer: configuration reload replacing export policies (peer.replaceExportFilterChain).
func (r *Rig) OutReplacer(p *Progress, n int) Worker {
	return Worker{Name: "export-policy", Fn: func(rng *rand.Rand) {
		for i := 0; i < n; i++ {
			s := r.Sessions[rng.IntN(len(r.Sessions))]
			c := Policy(rng.IntN(20))
			r.Op(p, "adjRIBOut.ReplaceFilterChain", func() { s.Out.ReplaceFilterChain(c) })
			runtime.Gosched()
		}
	}}
}

// Registrar: RIS ObserveRIB streams coming and going (RegisterWithOptions MaxPaths / Unregister) and refreshes.
func (r *Rig) Registrar(p *Progress, n int, late *atomic.Int64) Worker {
	return Worker{Name: "registrar", Fn: func(rng *rand.Rand) {
		var regd []*Client
		opts := []routingtable.ClientOptions{{BestOnly: true}, {EcmpOnly: true}, {MaxPaths: 100}, {MaxPaths: 2}}
		for i := 0; i < n; i++ {
			x := rng.IntN(10)
			switch {
			case x < 5 || len(regd) == 0:
				c := NewClient(fmt.Sprintf("obs%d", i))
				regd = append(regd, c)
				o := opts[rng.IntN(len(opts))]
				r.Op(p, "locRIB.RegisterWithOptions", func() { r.Loc.RegisterWithOptions(c, o) })
				if late != nil {
					late.Add(1)
				}
			case x < 8:
				j := rng.IntN(len(regd))
				c := regd[j]
				regd = append(regd[:j], regd[j+1:]...)
				r.Op(p, "locRIB.Unregister", func() { r.Loc.Unregister(c) })
			default:
				c := regd[rng.IntN(len(regd))]
				r.Op(p, "locRIB.RefreshClient", func() { r.Loc.RefreshClient(c) })
			}
			runtime.Gosched()
		}
		for _, c := range regd {
			c := c
			r.Op(p, "locRIB.Unregister", func() { r.Loc.Unregister(c) })
		}
	}}
}

// AdjRegistrar: clients of the Adj-RIBs coming and going (what session setup / teardown does with the Loc-RIB and
// the update sender, and BMP-style taps).
func (r *Rig) AdjRegistrar(p *Progress, n int) Worker {
	return Worker{Name: "adj-registrar", Fn: func(rng *rand.Rand) {
		for i := 0; i < n; i++ {
			s := r.Sessions[rng.IntN(len(r.Sessions))]
			c := NewClient(fmt.Sprintf("adjtap%d", i))
			if rng.IntN(2) == 0 {
				r.Op(p, "adjRIBIn.Register", func() { s.In.Register(c) })
				runtime.Gosched()
				r.Op(p, "adjRIBIn.Unregister", func() { s.In.Unregister(c) })
			} else {
				r.Op(p, "adjRIBOut.Register", func() { s.Out.Register(c) })
				runtime.Gosched()
				r.Op(p, "adjRIBOut.Unregister", func() { s.Out.Unregister(c) })
			}
		}
	}}
}

// Churn: sessions coming up and going down (fsmAddressFamily.init / dispose on other FSM goroutines).
func (r *Rig) Churn(base int, k SessionKind, p *Progress, n int) Worker {
	return Worker{Name: "session-churn", Fn: func(rng *rand.Rand) {
		for i := 0; i < n; i++ {
			var s *Session
			r.Op(p, "session.init", func() { s = r.AddSession(base+i%3, k) })
			for j := 0; j < 4; j++ {
				pfx := Pfxs[rng.IntN(6)]
				path := r.LearnedPath(s, rng)
				r.Op(p, "adjRIBIn.AddPath", func() { s.In.AddPath(pfx, path) })
			}
			if rng.IntN(2) == 0 {
				time.Sleep(time.Duration(rng.IntN(3)) * time.Millisecond) // let the sender's ticker fire
			}
			r.Op(p, "session.dispose", func() { r.DisposeSession(s) })
		}
	}}
}

// Reader: API servers and exporters (RIS LPM/Get/GetLonger/DumpRIB with ToProto and the origin filter, BGP API
// DumpRIBIn/DumpRIBOut, metrics RouteCount / Count / ClientCount).
func (r *Rig) Reader(p *Progress, n int) Worker {
	return Worker{Name: "reader", Fn: func(rng *rand.Rand) {
		use := func(rs []*route.Route) {
			for _, rt := range rs {
				_ = rt.ToProto()
				_ = rt.IsBGPOriginatedBy(64900)
				_ = rt.Pfxlen()
			}
		}
		for i := 0; i < n; i++ {
			var s *Session
			x := rng.IntN(10)
			if len(r.Sessions) > 0 {
				s = r.Sessions[rng.IntN(len(r.Sessions))]
			} else {
				x = []int{0, 1, 2, 3, 6, 9}[rng.IntN(6)] // Loc-RIB only
			}
			switch x {
			case 0:
				r.Op(p, "locRIB.Dump", func() { use(r.Loc.Dump()) })
			case 1:
				r.Op(p, "locRIB.LPM", func() { use(r.Loc.LPM(bnet.NewPfx(bnet.IPv4(0x0a000001+uint32(rng.IntN(6))<<16), 32).Ptr())) })
			case 2:
				r.Op(p, "locRIB.Get", func() {
					if rt := r.Loc.Get(Pfxs[rng.IntN(6)]); rt != nil {
						use([]*route.Route{rt})
					}
				})
			case 3:
				r.Op(p, "locRIB.GetLonger", func() { use(r.Loc.GetLonger(Pfxs[6])) })
			case 4:
				r.Op(p, "adjRIBIn.Dump", func() { use(s.In.Dump()) })
			case 5:
				r.Op(p, "adjRIBOut.Dump", func() { use(s.Out.Dump()) })
			case 6:
				r.Op(p, "counts", func() {
					_ = r.Loc.Count()
					_ = r.Loc.RouteCount()
					_ = r.Loc.ClientCount()
					if s == nil {
						return
					}
					_ = s.In.RouteCount()
					_ = s.Out.RouteCount()
					_ = s.In.ClientCount()
					_ = s.Out.ClientCount()
				})
			case 7:
				r.Op(p, "adjRIBIn.Get/LPM", func() {
					if rt := s.In.Get(Pfxs[rng.IntN(6)]); rt != nil {
						use([]*route.Route{rt})
					}
					use(s.In.LPM(bnet.NewPfx(bnet.IPv4(0x0a000001), 32).Ptr()))
				})
			case 8:
				r.Op(p, "adjRIBOut.Get/LPM", func() {
					if rt := s.Out.Get(Pfxs[rng.IntN(6)]); rt != nil {
						use([]*route.Route{rt})
					}
					use(s.Out.GetLonger(Pfxs[6]))
				})
			case 9:
				r.Op(p, "locRIB.ContainsPfxPath", func() {
					_ = r.Loc.ContainsPfxPath(Pfxs[rng.IntN(6)], r.LocalPath(1, rng).Build())
				})
			}
			runtime.Gosched()
		}
	}}
}

// Disposer: the BMP router going away (VRFRegistry.DisposeAll -> LocRIB.Dispose) while everything else continues.
func (r *Rig) Disposer(p *Progress, times int) Worker {
	return Worker{Name: "disposer", Fn: func(rng *rand.Rand) {
		for i := 0; i < times; i++ {
			for j := 0; j < 1+rng.IntN(20); j++ {
				runtime.Gosched()
			}
			r.Op(p, "locRIB.Dispose", func() { r.Loc.Dispose() })
		}
	}}
}
