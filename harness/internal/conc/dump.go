// Package conc holds the concurrency monitors shared by C25 and C26: a goroutine-dump analyser
// (who is parked where, with which bio-rd frames), the no-progress watchdog built on it, the
// race-detector log parser and the concurrent table workloads.
package conc

import (
	"fmt"
	"regexp"
	"runtime"
	"sort"
	"strings"
)

const bioPrefix = "github.com/bio-routing/bio-rd/"

// Frame is one stack frame of a goroutine dump.
type Frame struct {
	Func string // full function name, e.g. github.com/bio-routing/bio-rd/routingtable/locRIB.(*LocRIB).AddPath
	File string
	Line string
}

// Bio reports whether the frame is bio-rd code.
func (f Frame) Bio() bool { return strings.HasPrefix(f.Func, bioPrefix) }

// Harness reports whether the frame is harness code.
func (f Frame) Harness() bool {
	return strings.HasPrefix(f.Func, "main.") || strings.HasPrefix(f.Func, "verifharness/")
}

// Short is the function name without the module path: locRIB.(*LocRIB).AddPath
func (f Frame) Short() string { return ShortFunc(f.Func) }

// ShortFunc strips the import path up to the last element and closure suffixes (.func1, .func2.1, …).
func ShortFunc(fn string) string {
	if i := strings.LastIndex(fn, "/"); i >= 0 {
		fn = fn[i+1:]
	}
	return closureRe.ReplaceAllString(fn, "")
}

var closureRe = regexp.MustCompile(`(\.func\d+(\.\d+)*|\.gowrap\d+|\.deferwrap\d+)+$`)

// Owner is the type whose lock a method frame is taken to use: locRIB.LocRIB for locRIB.(*LocRIB).AddPath;
// for plain functions the function name itself.
func (f Frame) Owner() string {
	s := f.Short()
	if i := strings.Index(s, ".("); i >= 0 {
		rest := s[i+2:]
		if j := strings.Index(rest, ")"); j >= 0 {
			return s[:i] + "." + strings.TrimPrefix(rest[:j], "*")
		}
	}
	// value receiver: pkg.Type.Method
	parts := strings.Split(s, ".")
	if len(parts) == 3 {
		return parts[0] + "." + parts[1]
	}
	return s
}

// G is one goroutine of a dump.
type G struct {
	ID      string
	State   string // wait reason without duration: "sync.Mutex.Lock", "chan send", "select", "running", …
	Frames  []Frame
	Created string // function that started it
}

var hdrRe = regexp.MustCompile(`^goroutine (\d+) \[([^\],]+)(?:, [^\]]*)?\]:$`)

// Dump takes a dump of all goroutines.
func Dump() string {
	n := 1 << 20
	for {
		buf := make([]byte, n)
		m := runtime.Stack(buf, true)
		if m < n {
			return string(buf[:m])
		}
		n *= 2
	}
}

// Parse parses runtime.Stack(all) output.
func Parse(dump string) []G {
	var out []G
	var cur *G
	lines := strings.Split(dump, "\n")
	for i := 0; i < len(lines); i++ {
		l := lines[i]
		if m := hdrRe.FindStringSubmatch(l); m != nil {
			out = append(out, G{ID: m[1], State: m[2]})
			cur = &out[len(out)-1]
			continue
		}
		if cur == nil || l == "" {
			if l == "" {
				cur = nil
			}
			continue
		}
		if strings.HasPrefix(l, "created by ") {
			c := strings.TrimPrefix(l, "created by ")
			if j := strings.Index(c, " in goroutine"); j >= 0 {
				c = c[:j]
			}
			cur.Created = c
			i++ // file line
			continue
		}
		if strings.HasPrefix(l, "\t") {
			continue
		}
		fn := l
		if j := strings.LastIndex(fn, "("); j >= 0 {
			fn = fn[:j]
		}
		fr := Frame{Func: fn}
		if i+1 < len(lines) && strings.HasPrefix(lines[i+1], "\t") {
			loc := strings.TrimSpace(lines[i+1])
			if j := strings.Index(loc, " +0x"); j >= 0 {
				loc = loc[:j]
			}
			if j := strings.LastIndex(loc, ":"); j >= 0 {
				fr.File, fr.Line = loc[:j], loc[j+1:]
			}
			i++
		}
		cur.Frames = append(cur.Frames, fr)
	}
	return out
}

// blockingStates are the wait reasons that mean "parked on a synchronisation primitive".
var blockingStates = map[string]bool{
	"sync.Mutex.Lock": true, "sync.RWMutex.RLock": true, "sync.RWMutex.Lock": true,
	"chan send": true, "chan receive": true, "chan send (nil chan)": true, "chan receive (nil chan)": true,
	"semacquire": true, "sync.Cond.Wait": true, "select": true, "select (no cases)": true,
}

// Parked describes a goroutine parked on a synchronisation primitive directly below a bio-rd frame.
type Parked struct {
	G        string   // goroutine id
	State    string   // wait reason
	Worker   bool     // started by the harness (a harness frame is on its stack or it was created by harness code)
	At       Frame    // innermost bio-rd frame: the function that called Lock / sent / received
	Entry    Frame    // outermost bio-rd frame: how the goroutine entered bio-rd
	BioStack []string // all bio-rd frames, innermost first, short names with line numbers
	Holds    []string // owners of outer bio-rd frames that differ from the owner of At (locks it may hold)
}

// ParkedInBio returns every goroutine that is parked on a mutex / channel operation whose innermost
// non-runtime, non-sync frame is bio-rd code.
func ParkedInBio(gs []G) []Parked {
	var out []Parked
	for _, g := range gs {
		if !blockingStates[g.State] {
			continue
		}
		// innermost frame that is neither runtime nor sync
		idx := -1
		for i, f := range g.Frames {
			if strings.HasPrefix(f.Func, "runtime.") || strings.HasPrefix(f.Func, "sync.") || strings.HasPrefix(f.Func, "sync/atomic.") || strings.HasPrefix(f.Func, "internal/") {
				continue
			}
			idx = i
			break
		}
		if idx < 0 || !g.Frames[idx].Bio() {
			continue
		}
		p := Parked{G: g.ID, State: g.State, At: g.Frames[idx]}
		atOwner := p.At.Owner()
		seen := map[string]bool{atOwner: true}
		for _, f := range g.Frames[idx:] {
			if f.Bio() {
				p.Entry = f
				p.BioStack = append(p.BioStack, fmt.Sprintf("%s:%s", f.Short(), f.Line))
				if o := f.Owner(); !seen[o] {
					seen[o] = true
					p.Holds = append(p.Holds, o)
				}
			}
			if f.Harness() {
				p.Worker = true
			}
		}
		if strings.HasPrefix(g.Created, "main.") || strings.HasPrefix(g.Created, "verifharness/") {
			p.Worker = true
		}
		out = append(out, p)
	}
	return out
}

// Site is the stable description of where a goroutine waits: "locRIB.(*LocRIB).RefreshClient [sync.RWMutex.RLock]".
func (p Parked) Site() string { return fmt.Sprintf("%s [%s]", p.At.Short(), p.State) }

// Edge is "<entry> > <blocked at>" without line numbers.
func (p Parked) Edge() string {
	if p.Entry.Func == p.At.Func {
		return p.At.Short()
	}
	return p.Entry.Short() + " > " + p.At.Short()
}

// flowRank orders the tables in the direction routes flow; a call from a higher rank into a lower one while
// holding the higher one's lock is the inverting call of a lock-order cycle.
func flowRank(owner string) int {
	switch {
	case strings.HasPrefix(owner, "adjRIBIn."):
		return 1
	case strings.HasPrefix(owner, "locRIB."):
		return 2
	case strings.HasPrefix(owner, "adjRIBOut."):
		return 3
	case strings.HasPrefix(owner, "server."):
		return 4
	}
	return 0
}

// Analysis is the classification of a set of parked goroutines.
type Analysis struct {
	Kind      string   // lock-cycle | orphaned-lock | channel
	Locks     []string // owners in the cycle / owners waited for that nobody visibly holds / channel sites
	Inverting string   // the call against the route flow that closes the cycle ("" if none)
	Sites     []string // every distinct waiting site
	Edges     []string // every distinct entry>blocked edge
}

// Analyse classifies parked goroutines: it builds the wait-for graph between lock owners (an outer bio-rd frame of
// another type = a lock possibly held; the innermost bio-rd frame = the lock waited for) and looks for a cycle.
func Analyse(ps []Parked) Analysis {
	a := Analysis{}
	siteSet, edgeSet := map[string]bool{}, map[string]bool{}
	graph := map[string]map[string]bool{}
	waited := map[string]bool{}
	held := map[string]bool{}
	chanSites := map[string]bool{}
	for _, p := range ps {
		siteSet[p.Site()] = true
		edgeSet[p.Edge()] = true
		if strings.HasPrefix(p.State, "chan") || strings.HasPrefix(p.State, "select") {
			chanSites[p.At.Short()+" ["+p.State+"]"] = true
			continue
		}
		w := p.At.Owner()
		waited[w] = true
		for _, h := range p.Holds {
			held[h] = true
			if graph[h] == nil {
				graph[h] = map[string]bool{}
			}
			graph[h][w] = true
		}
	}
	a.Sites, a.Edges = keys(siteSet), keys(edgeSet)
	// shortest cycle (2-cycles first, then 3-cycles)
	var cyc []string
	nodes := keys(waited)
	for _, x := range nodes {
		for y := range graph[x] {
			if x < y && graph[y][x] {
				cyc = []string{x, y}
			}
		}
	}
	if cyc == nil {
	outer:
		for _, x := range nodes {
			for y := range graph[x] {
				for z := range graph[y] {
					if z != x && z != y && graph[z][x] {
						cyc = []string{x, y, z}
						sort.Strings(cyc)
						break outer
					}
				}
			}
		}
	}
	// a goroutine that waits on a channel while a frame of the same owner is on other goroutines' wait list:
	// a lock held across a channel operation
	var lockChan []string
	for _, p := range ps {
		if !(strings.HasPrefix(p.State, "chan") || strings.HasPrefix(p.State, "select")) {
			continue
		}
		for _, o := range append([]string{p.At.Owner()}, p.Holds...) {
			if waited[o] {
				lockChan = append(lockChan, o, p.At.Short()+" ["+p.State+"]")
				break
			}
		}
		if lockChan != nil {
			break
		}
	}
	switch {
	case cyc == nil && lockChan != nil:
		a.Kind, a.Locks, a.Inverting = "lock-held-across-channel-operation", lockChan[:1], lockChan[1]
	case cyc != nil:
		a.Kind, a.Locks = "lock-cycle", cyc
		in := map[string]bool{}
		for _, c := range cyc {
			in[c] = true
		}
		inv := map[string]bool{}
		for _, p := range ps {
			w := p.At.Owner()
			if !in[w] {
				continue
			}
			for _, h := range p.Holds {
				if in[h] && flowRank(h) > flowRank(w) {
					// name the holder's frame closest to the blocked frame
					inv[holderFrame(p, h)+" > "+p.At.Short()] = true
				}
			}
		}
		a.Inverting = strings.Join(keys(inv), " ; ")
	case len(waited) > 0:
		a.Kind = "orphaned-lock"
		for w := range waited {
			if !held[w] {
				a.Locks = append(a.Locks, w)
			}
		}
		if len(a.Locks) == 0 {
			a.Locks = keys(waited)
		}
		sort.Strings(a.Locks)
	default:
		a.Kind, a.Locks = "channel", keys(chanSites)
	}
	return a
}

func holderFrame(p Parked, owner string) string {
	for _, s := range p.BioStack {
		fn := s[:strings.LastIndex(s, ":")]
		if (Frame{Func: fn}).Owner() == owner {
			return fn
		}
	}
	return owner
}

func keys(m map[string]bool) []string {
	out := make([]string, 0, len(m))
	for k := range m {
		out = append(out, k)
	}
	sort.Strings(out)
	return out
}

// Render gives the witness text: every parked goroutine with its bio-rd frames.
func Render(ps []Parked) string {
	var b strings.Builder
	for _, p := range ps {
		role := "bio-rd goroutine"
		if p.Worker {
			role = "worker"
		}
		fmt.Fprintf(&b, "g%s %s parked in [%s] at %s\n", p.G, role, p.State, strings.Join(p.BioStack, " <- "))
	}
	return b.String()
}
