package conc

import (
	"os"
	"path/filepath"
	"sort"
	"strings"
)

// RaceAccess is one of the two conflicting accesses of a race report.
type RaceAccess struct {
	Header string   `json:"header"` // "Write at 0x… by goroutine 7:" without the address
	Frames []string `json:"frames"` // function names, innermost first
	Lines  []string `json:"lines"`  // file:line per frame
	Inner  string   `json:"inner"`  // innermost bio-rd function (short), "" if the stack never enters bio-rd
	Entry  string   `json:"entry"`  // outermost bio-rd function (short)
}

// RaceReport is one WARNING: DATA RACE block.
type RaceReport struct {
	A, B        RaceAccess
	HarnessOnly bool   // neither stack enters bio-rd
	Hook        bool   // one of the innermost bio-rd functions is a verification hook (Verif…): harness code inside the package
	Text        string // the block (truncated)
}

// ReadEntry is the outermost bio-rd function of the side that READ ("(consumer)" if that side never enters bio-rd
// below the harness, "" if both sides wrote): the entry point through which the unsynchronised reader came.
func (r RaceReport) ReadEntry() string {
	for _, x := range []RaceAccess{r.A, r.B} {
		h := strings.ToLower(x.Header)
		if strings.HasPrefix(h, "read") || strings.HasPrefix(h, "previous read") || strings.HasPrefix(h, "atomic read") || strings.HasPrefix(h, "previous atomic read") {
			if x.Entry == "" {
				return "(consumer)"
			}
			return x.Entry
		}
	}
	return ""
}

// Writer is the innermost bio-rd function outside the value-object packages on the writing side (both, sorted and joined with " & ", when both wrote;
// "(consumer)" when the writing stack never enters bio-rd, e.g. the construction of a path before it was handed over).
func (r RaceReport) Writer() string {
	var ws []string
	for _, x := range []RaceAccess{r.A, r.B} {
		if strings.Contains(strings.ToLower(x.Header), "write") {
			if x.Inner == "" {
				ws = append(ws, "(consumer)")
			} else {
				ws = append(ws, x.actor())
			}
		}
	}
	sort.Strings(ws)
	return strings.Join(ws, " & ")
}

// Reader is the function that performed the unsynchronised read: the innermost bio-rd function outside the value-object
// packages on the reading side; when that side is a consumer calling a value-object method directly on something a
// table handed out, the method it called (the entry point). "" if both sides wrote.
func (r RaceReport) Reader() string {
	for _, x := range []RaceAccess{r.A, r.B} {
		h := strings.ToLower(x.Header)
		if strings.HasPrefix(h, "read") || strings.HasPrefix(h, "previous read") || strings.HasPrefix(h, "atomic read") || strings.HasPrefix(h, "previous atomic read") {
			if x.Entry == "" {
				return "(consumer)"
			}
			if f := x.actorOr(""); f != "" {
				return f
			}
			return x.Entry
		}
	}
	return ""
}

// dataPkgs are bio-rd's value-object packages: a frame there (Prepend, Copy, ToProto, …) says which field was touched,
// not who decided to touch it.
var dataPkgs = []string{bioPrefix + "route.", bioPrefix + "route/api.", bioPrefix + "protocols/bgp/types.", bioPrefix + "net.", bioPrefix + "net/api."}

// actor is the innermost bio-rd function outside the value-object packages (the innermost bio-rd function if there is none).
func (a RaceAccess) actor() string { return a.actorOr(a.Inner) }

func (a RaceAccess) actorOr(def string) string {
	for _, f := range a.Frames {
		if !strings.HasPrefix(f, bioPrefix) {
			continue
		}
		data := false
		for _, p := range dataPkgs {
			if strings.HasPrefix(f, p) {
				data = true
			}
		}
		if !data {
			return ShortFunc(f)
		}
	}
	return def
}

// WriteEntry is the entry point of the (first) writing side.
func (r RaceReport) WriteEntry() string {
	for _, x := range []RaceAccess{r.A, r.B} {
		h := strings.ToLower(x.Header)
		if strings.Contains(h, "write") {
			if x.Entry == "" {
				return "(consumer)"
			}
			return x.Entry
		}
	}
	return ""
}

// InnerPair returns the two innermost bio-rd functions, sorted. A side that never enters bio-rd (a client or API
// consumer reading what bio-rd handed out) is named by its innermost harness function in parentheses.
func (r RaceReport) InnerPair() (string, string) {
	a, b := r.A.Inner, r.B.Inner
	if a == "" {
		a = "(consumer " + firstNonRuntime(r.A.Frames) + ")"
	}
	if b == "" {
		b = "(consumer " + firstNonRuntime(r.B.Frames) + ")"
	}
	if a > b {
		a, b = b, a
	}
	return a, b
}

// EntryPair returns the two outermost bio-rd functions, sorted.
func (r RaceReport) EntryPair() (string, string) {
	a, b := r.A.Entry, r.B.Entry
	if a == "" {
		a = "(consumer)"
	}
	if b == "" {
		b = "(consumer)"
	}
	if a > b {
		a, b = b, a
	}
	return a, b
}

func firstNonRuntime(fs []string) string {
	for _, f := range fs {
		if strings.HasPrefix(f, "runtime.") || strings.HasPrefix(f, "sync.") || strings.HasPrefix(f, "sync/atomic.") {
			continue
		}
		return ShortFunc(f)
	}
	return "?"
}

func parseAccess(section []string) RaceAccess {
	a := RaceAccess{}
	if len(section) == 0 {
		return a
	}
	h := strings.TrimSpace(section[0])
	// drop the address so that headers compare
	if i := strings.Index(h, " at 0x"); i >= 0 {
		if j := strings.Index(h[i+4:], " "); j >= 0 {
			h = h[:i] + h[i+4+j:]
		}
	}
	a.Header = h
	for i := 1; i < len(section); i++ {
		l := section[i]
		if strings.HasPrefix(l, "      ") { // location line
			loc := strings.TrimSpace(l)
			if j := strings.Index(loc, " +0x"); j >= 0 {
				loc = loc[:j]
			}
			if len(a.Lines) < len(a.Frames) {
				a.Lines = append(a.Lines, loc)
			}
			continue
		}
		if strings.HasPrefix(l, "  ") {
			fn := strings.TrimSpace(l)
			fn = strings.TrimSuffix(fn, "()")
			a.Frames = append(a.Frames, fn)
		}
	}
	for _, f := range a.Frames {
		if strings.HasPrefix(f, bioPrefix) {
			if a.Inner == "" {
				a.Inner = ShortFunc(f)
			}
			a.Entry = ShortFunc(f)
		}
	}
	return a
}

// ParseRaceLog parses the text of a race detector log.
func ParseRaceLog(text string) []RaceReport {
	var out []RaceReport
	for _, blk := range strings.Split(text, "==================") {
		if !strings.Contains(blk, "WARNING: DATA RACE") {
			continue
		}
		lines := strings.Split(blk, "\n")
		var sections [][]string
		var cur []string
		for _, l := range lines {
			if strings.TrimSpace(l) == "" {
				if len(cur) > 0 {
					sections = append(sections, cur)
					cur = nil
				}
				continue
			}
			if strings.HasPrefix(l, "WARNING: DATA RACE") {
				continue
			}
			cur = append(cur, l)
		}
		if len(cur) > 0 {
			sections = append(sections, cur)
		}
		var acc []RaceAccess
		for _, s := range sections {
			h := strings.TrimSpace(s[0])
			if strings.HasPrefix(h, "Goroutine ") {
				continue
			}
			if strings.Contains(h, " by goroutine ") || strings.Contains(h, " by main goroutine") {
				acc = append(acc, parseAccess(s))
			}
		}
		if len(acc) < 2 {
			continue
		}
		r := RaceReport{A: acc[0], B: acc[1]}
		r.HarnessOnly = r.A.Inner == "" && r.B.Inner == ""
		r.Hook = strings.Contains(r.A.Inner, ".Verif") || strings.Contains(r.B.Inner, ".Verif") || strings.Contains(r.A.Inner, ".verif") || strings.Contains(r.B.Inner, ".verif")
		t := strings.TrimSpace(blk)
		if len(t) > 5000 {
			t = t[:5000] + "\n…"
		}
		r.Text = t
		out = append(out, r)
	}
	return out
}

// ReadRaceLogs reads every file prefix.* and parses it.
func ReadRaceLogs(prefix string) ([]RaceReport, int) {
	files, _ := filepath.Glob(prefix + ".*")
	sort.Strings(files)
	var out []RaceReport
	for _, f := range files {
		b, err := os.ReadFile(f)
		if err != nil {
			continue
		}
		out = append(out, ParseRaceLog(string(b))...)
	}
	return out, len(files)
}
