// Package gen holds PRNG-driven generators shared by the checks.
package gen

import (
	"fmt"
	"math/rand/v2"
	"sort"

	bnet "github.com/bio-routing/bio-rd/net"
)

// P is the harness' own prefix value: address bits in two words (IPv4: value in the top 32 bits of Hi) and a length.
type P struct {
	V4  bool   `json:"v4"`
	Hi  uint64 `json:"hi"`
	Lo  uint64 `json:"lo"`
	Len uint8  `json:"len"`
}

func (p P) Width() int {
	if p.V4 {
		return 32
	}
	return 128
}

// Bit returns bit i (1-based from the most significant bit).
func Bit(hi, lo uint64, i int) bool {
	if i <= 64 {
		return hi>>(64-uint(i))&1 == 1
	}
	return lo>>(128-uint(i))&1 == 1
}

// Mask keeps the first l bits.
func Mask(hi, lo uint64, l int) (uint64, uint64) {
	switch {
	case l <= 0:
		return 0, 0
	case l < 64:
		return hi &^ (^uint64(0) >> uint(l)), 0
	case l == 64:
		return hi, 0
	case l < 128:
		return hi, lo &^ (^uint64(0) >> uint(l-64))
	}
	return hi, lo
}

// Canon returns p without host bits.
func (p P) Canon() P {
	p.Hi, p.Lo = Mask(p.Hi, p.Lo, int(p.Len))
	if p.V4 {
		p.Hi &= 0xffffffff00000000
		p.Lo = 0
	}
	return p
}

// Covers reports whether p contains or equals q (same family, on the address bits).
func (p P) Covers(q P) bool {
	if p.V4 != q.V4 || p.Len > q.Len {
		return false
	}
	ph, pl := Mask(p.Hi, p.Lo, int(p.Len))
	qh, ql := Mask(q.Hi, q.Lo, int(p.Len))
	return ph == qh && pl == ql
}

func (p P) Key() string { return fmt.Sprintf("%v/%016x%016x/%d", p.V4, p.Hi, p.Lo, p.Len) }

// Bio converts to bio-rd's prefix type.
func (p P) Bio() *bnet.Prefix {
	if p.V4 {
		return bnet.NewPfx(bnet.IPv4(uint32(p.Hi>>32)), p.Len).Ptr()
	}
	return bnet.NewPfx(bnet.IPv6(p.Hi, p.Lo), p.Len).Ptr()
}

// FromBio converts back.
func FromBio(b *bnet.Prefix) P {
	a := b.Addr()
	if a.IsIPv4() {
		return P{V4: true, Hi: uint64(a.ToUint32()) << 32, Len: b.Len()}
	}
	return P{Hi: a.Higher(), Lo: a.Lower(), Len: b.Len()}
}

func (p P) String() string { return p.Bio().String() }

func flip(hi, lo uint64, k int) (uint64, uint64) {
	if k <= 64 {
		return hi ^ 1<<(64-uint(k)), lo
	}
	return hi, lo ^ 1<<(128-uint(k))
}

// Universe builds a small adversarial set of n distinct canonical prefixes of one family: a few random stems,
// lengths around the word boundaries, siblings (last bit differs), parents, children, default and host routes.
func Universe(rng *rand.Rand, v4 bool, n int) []P {
	w := 128
	if v4 {
		w = 32
	}
	seen := map[string]bool{}
	var out []P
	add := func(p P) {
		p.V4 = v4
		if int(p.Len) > w {
			return
		}
		p = p.Canon()
		if !seen[p.Key()] {
			seen[p.Key()] = true
			out = append(out, p)
		}
	}
	var lens []int
	if v4 {
		lens = []int{0, 1, 2, 7, 8, 9, 15, 16, 17, 23, 24, 25, 30, 31, 32}
	} else {
		lens = []int{0, 1, 7, 8, 16, 31, 32, 33, 47, 48, 49, 63, 64, 65, 66, 95, 96, 97, 112, 126, 127, 128}
	}
	nstems := 3 + rng.IntN(2)
	stems := make([][2]uint64, nstems)
	for i := range stems {
		stems[i] = [2]uint64{rng.Uint64(), rng.Uint64()}
		if i > 0 && rng.IntN(2) == 0 {
			// share a long common stem with stem 0, diverging at a random bit
			k := 1 + rng.IntN(w)
			h, l := Mask(stems[0][0], stems[0][1], k-1)
			rh, rl := rng.Uint64(), rng.Uint64()
			mh, ml := Mask(rh, rl, k-1)
			stems[i] = [2]uint64{h | (rh ^ mh), l | (rl ^ ml)}
		}
	}
	if rng.IntN(3) == 0 {
		add(P{Len: 0})
	}
	for guard := 0; len(out) < n && guard < n*40; guard++ {
		s := stems[rng.IntN(nstems)]
		l := lens[rng.IntN(len(lens))]
		if rng.IntN(4) == 0 {
			l = rng.IntN(w + 1)
		}
		p := P{Hi: s[0], Lo: s[1], Len: uint8(l)}
		switch rng.IntN(6) {
		case 0: // sibling
			if l > 0 {
				add(p)
				p.Hi, p.Lo = flip(p.Hi, p.Lo, l)
			}
		case 1: // parent
			if l > 0 {
				add(p)
				p.Len--
			}
		case 2: // child with a flipped bit just below
			if l < w {
				add(p)
				p.Len++
				if rng.IntN(2) == 0 {
					p.Hi, p.Lo = flip(p.Hi, p.Lo, l+1)
				}
			}
		case 3: // host route
			p.Len = uint8(w)
		}
		add(p)
	}
	if len(out) > n {
		out = out[:n]
	}
	sort.Slice(out, func(i, j int) bool { return out[i].Key() < out[j].Key() })
	rng.Shuffle(len(out), func(i, j int) { out[i], out[j] = out[j], out[i] })
	return out
}

// LenBand names the band a prefix length falls into (for evidence histograms and violation features).
func LenBand(v4 bool, l uint8) string {
	if v4 {
		switch {
		case l == 0:
			return "v4:0"
		case l <= 8:
			return "v4:1-8"
		case l <= 24:
			return "v4:9-24"
		case l < 32:
			return "v4:25-31"
		}
		return "v4:32"
	}
	switch {
	case l == 0:
		return "v6:0"
	case l <= 32:
		return "v6:1-32"
	case l <= 64:
		return "v6:33-64"
	case l <= 96:
		return "v6:65-96"
	case l < 128:
		return "v6:97-127"
	}
	return "v6:128"
}
