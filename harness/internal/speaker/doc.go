// Package speaker drives a real bio-rd BGP server (protocols/bgp/server) through its public API
// while the harness plays the remote BGP speakers over in-memory connections (internal/memconn).
// Nothing here judges anything; oracles live in the checks (cmd/cNN). Used by C07, C19, C20, C22
// and meant for C06, C21, C23, C24, C25, C26.
//
// # Pieces
//
//	srv := speaker.NewServer(speaker.ServerConfig{RouterID: 0x0a000001})
//	    a bgpserver with its own untracked VRF (IPv4 + IPv6 Loc-RIB) and a harness
//	    tcp.ListenerManagerI; any number of servers can live in one process, they share nothing
//	    (except bio-rd's global logger, which is replaced by a discarding one).
//	    srv.B (server.BGPServer), srv.VRF, srv.RIB(v4) are bio-rd's own objects.
//	    srv.Dump(v4), srv.ClientCount(v4), srv.VRF.IsContributingASN(asn),
//	    srv.AddStatic(pfx, nexthop) / RemoveStatic: a route bio-rd exports to every kind of peer.
//
//	p, err := srv.AddPeer(speaker.PeerConfig{LocalAS: 65000, PeerAS: 65001, IPv4: &speaker.Family{}})
//	    passive peer (bio-rd waits for our connection). iBGP (LocalAS == PeerAS), eBGP, RRClient,
//	    RSClient; families IPv4 (classic, or multiprotocol with AdvertiseIPv4MP) and IPv6; add-path
//	    receive/send per family; hold time; RFC 9234 role; import/export chains (nil = accept
//	    all; helpers Accept, Reject, SetLocalPref, SetMED, Prepend). Peer addresses default to
//	    127.0.x.y (an active FSM's real dial fails at once there).
//	    p.FSMs() hook snapshot of all FSMs; p.Dispose(timeout) = DisposePeer under a watchdog.
//	    PeerConfig.Active + p.DeliverOutgoing(): bio-rd as the connecting side (FSM 0 gets the
//	    connection through the hook VerifFSMDeliverConn after a start event) — provided for C24,
//	    not exercised by C07/C19/C20/C22.
//
//	s, err := p.Connect()
//	    new memconn connection with a distinct remote port, handed to bio-rd through AcceptCh();
//	    returns once bio-rd created the FSM for it (s.FSMIndex: a passive peer gets one more FSM
//	    per incoming connection and never drops one) and took the connection. bio-rd sends its
//	    OPEN at once and waits ONE second for ours (the OpenSent hold time is 0 until then): under
//	    heavy load retry (sessgen.Establish does) and treat a NOTIFICATION 4/x as "stalled".
//
//	err := s.Establish(p.DefaultOpen())     OPEN / KEEPALIVE exchange up to Established + Sync
//	s.WaitSUTOpen(), s.SendOpen(o)          the steps one by one (C22 judges between them)
//	s.Send(raw) / s.SendUpdate(u) / s.SendKeepalive() / s.SendNotification(code, sub)
//	r := s.Sync()                           the synchronisation point, see below
//	s.Barrier(timeout)                      only the barrier event
//	s.Event(server.ManualStop, timeout)     administrative events through the hook
//	s.Messages() / s.WaitMessages(n, t) / s.WaitMessage(t, pred)   what bio-rd wrote, framed
//	s.Updates() / s.Notifications()         decoded with internal/wire under s.Neg.RecvOpts()
//	s.Neg                                   speaker.Negotiate(bio-rd's OPEN, our OPEN): the RFC
//	                                        reference (hold time, AS4, MP, add-path per direction)
//	s.Info()                                hook snapshot (VerifFSMInfo) of this connection's FSM
//	s.Established()                         FSM state is "established" AND it holds this connection
//	                                        AND bio-rd has not closed it (a ceased FSM never
//	                                        republishes its state, so the state alone is not enough)
//	s.RIBIn(v4) / s.RIBOut(v4)              Adj-RIB dumps of THIS FSM (BGPServer.GetRIBIn only answers
//	                                        for peers with exactly one FSM and panics when none is attached)
//	s.Conn                                  the memconn.Conn: FailWrites, FailReads, PeerClose, IsClosed, …
//
//	speaker.Views(dump), FromSource, FieldsOfPath / FieldsOfWire
//	    attribute projections of table dumps and of wire attributes in one vocabulary.
//
// # Synchronisation point
//
// Sync waits until bio-rd's receiver goroutine is parked in Read with no input left (it only
// reads again after the FSM goroutine took the previous message from an unbuffered channel) and
// then sends a barrier event into the FSM's event channel (hook VerifFSMSync), which is only
// accepted at the top of a state loop. When both happened every message injected before Sync
// has been processed completely, including the table updates it caused, because those run
// synchronously on the FSM goroutine (the initial table dump of a new session included; only the
// update sender's 5 ms ticker is asynchronous). If bio-rd closed the connection instead, Sync
// reports Closed and still tries the barrier (accepted by an FSM that went back to Idle; never
// accepted by an FSM that ceased — reported as Barrier == false after CeaseGrace). Every exit
// handler of bio-rd closes the connection after it cleaned up, so "closed by bio-rd" alone also
// orders the observation behind the handler's table operations.
//
// Do not send a message to an FSM that is in Idle with the connection still open and then Sync:
// nobody takes the message from the receiver, the reader never becomes idle (Sync runs into
// StepTimeout). Sync after the step that may be rejected, look at the state, then go on.
//
// # Companions
//
// internal/sessgen: JSON-serialisable session configurations negotiated for real (Cfg, RandCfg,
// NewSession, Establish) and descriptions of valid UPDATEs (UpdSpec, RandAttrs).
// internal/batch: the child-process protocol for crash-prone workloads (Lanes × Workers, side
// file, attribution, Drive glue to internal/vf).
package speaker
