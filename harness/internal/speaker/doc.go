// Package speaker drives a real bio-rd BGP server (protocols/bgp/server) through its public API
// while the harness plays the remote BGP speakers over in-memory connections (internal/memconn).
//
// # Pieces
//
//	srv := speaker.NewServer(speaker.ServerConfig{RouterID: 0x0a000001})
//	    a bgpserver with its own untracked VRF (IPv4 + IPv6 Loc-RIB) and a harness
//	    tcp.ListenerManagerI; any number of servers can live in one process, they share nothing
//	    (except bio-rd's global logger, which is replaced by a discarding one).
//	    srv.B (server.BGPServer), srv.VRF, srv.RIB(v4) are bio-rd's own objects.
//
//	p, err := srv.AddPeer(speaker.PeerConfig{LocalAS: 65000, PeerAS: 65001, IPv4: &speaker.Family{}})
//	    passive peer (bio-rd waits for our connection). Kinds: iBGP (LocalAS == PeerAS), eBGP,
//	    RRClient, RSClient; families IPv4 (classic or multiprotocol with AdvertiseIPv4MP) and IPv6;
//	    add-path receive/send per family; hold time; RFC 9234 role; import/export chains
//	    (nil = accept all; see Accept, Reject, SetLocalPref, Prepend).
//
//	s := p.Connect()
//	    new memconn connection with a distinct remote port, handed to bio-rd through AcceptCh();
//	    returns once bio-rd created the FSM for it (s.FSMIndex) and took the connection.
//	    bio-rd sends its OPEN at once and waits ONE second for ours (OpenSent hold time is 0).
//
//	err := s.Establish(p.DefaultOpen())     OPEN / KEEPALIVE exchange up to Established + Sync
//	s.Send(raw) / s.SendUpdate(u) / s.SendKeepalive() / s.SendNotification(code, sub)
//	r := s.Sync()                           the synchronisation point, see below
//	s.Messages()                            everything bio-rd wrote so far, cut into messages
//	s.Updates() / s.Notifications()         decoded with internal/wire under the negotiated options
//	s.Info()                                hook snapshot of this connection's FSM
//	s.Established()                         FSM state is "established" AND bio-rd has not closed
//	                                        the connection (a ceased FSM never republishes its
//	                                        state, so the state alone is not enough)
//	s.RIBIn(v4) / s.RIBOut(v4)              Adj-RIB dumps of this FSM (nil when not attached)
//	srv.Dump(v4), srv.ClientCount(v4), srv.VRF.IsContributingASN(asn)
//	srv.AddStatic(pfx, nexthop)             seed a route that bio-rd will export to every peer
//
// # Synchronisation point
//
// Sync waits until bio-rd's receiver goroutine is parked in Read with no input left (it only
// reads again after the FSM goroutine took the previous message from an unbuffered channel) and
// then sends a barrier event into the FSM's event channel (hook VerifFSMSync), which is only
// accepted at the top of a state loop. When both happened every message injected before Sync
// has been processed completely, including the table updates it caused, because those run
// synchronously on the FSM goroutine. If bio-rd closed the connection instead, Sync reports
// Closed and still tries the barrier (accepted by an FSM that went back to Idle; never accepted
// by an FSM that ceased — that is reported as Barrier == false after CeaseGrace).
//
// Nothing here judges anything; oracles live in the checks (cmd/cNN).
package speaker
