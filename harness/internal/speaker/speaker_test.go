package speaker

import (
	"testing"

	bnet "github.com/bio-routing/bio-rd/net"

	"verifharness/internal/wire"
)

// Smoke test of the harness itself: handshake, initial export, one UPDATE in, synchronisation.
func TestSmoke(t *testing.T) {
	srv := NewServer(ServerConfig{})
	srv.AddStatic(bnet.NewPfx(bnet.IPv4FromOctets(10, 1, 0, 0), 16).Ptr(), bnet.IPv4FromOctets(192, 0, 2, 1))
	p, err := srv.AddPeer(PeerConfig{LocalAS: 65000, PeerAS: 65001, IPv4: &Family{}, IPv6: &Family{}})
	if err != nil {
		t.Fatal(err)
	}
	s, err := p.EstablishDefault()
	if err != nil {
		t.Fatal(err)
	}
	i, _ := s.Info()
	t.Logf("info %+v neg %+v", i, s.Neg)
	ups := s.Updates()
	if len(ups) < 2 {
		t.Fatalf("expected the static route and end-of-RIB markers, got %d updates", len(ups))
	}
	for _, u := range ups {
		if u.Err != nil {
			t.Fatalf("update %d: %v", u.Index, u.Err)
		}
		t.Logf("update: ann=%v wd=%v attrs=%s", u.U.Announced(), u.U.Withdrawals(), u.U.PA.Canon())
	}
	pa := &wire.PathAttrs{Origin: wire.U8(0), HasASPath: true, ASPath: []wire.Segment{{Type: wire.SegSequence, ASNs: []uint32{65001}}}, NextHop: []byte{192, 0, 2, 9}}
	u := &wire.Update{Attrs: pa.Build(s.Neg.SendOpts()), NLRI: []wire.NLRI{wire.V4(10, 2, 0, 0, 16)}}
	if err := s.SendUpdate(u); err != nil {
		t.Fatal(err)
	}
	if r := s.Sync(); !r.OK() {
		t.Fatalf("sync: %v", r)
	}
	in, ok := s.RIBIn(true)
	if !ok || len(in) != 1 {
		t.Fatalf("rib-in: %v %v", ok, in)
	}
	for _, v := range Views(srv.Dump(true)) {
		t.Logf("locrib %v", v)
	}
	if n := len(FromSource(Views(srv.Dump(true)), p.Addr)); n != 1 {
		t.Fatalf("loc-rib has %d paths from the peer", n)
	}
	if !s.SendNotification(6, 0) {
		t.Fatal("send")
	}
	r := s.Sync()
	t.Logf("after notification: %v state %s", r, s.State())
	if !r.Closed || !r.Barrier || s.Established() {
		t.Fatalf("teardown not observed")
	}
	if n := len(FromSource(Views(srv.Dump(true)), p.Addr)); n != 0 {
		t.Fatalf("loc-rib keeps %d paths", n)
	}
}

// The active side: bio-rd connects, the harness stands in for the TCP connector.
func TestActive(t *testing.T) {
	srv := NewServer(ServerConfig{})
	p, err := srv.AddPeer(PeerConfig{LocalAS: 65000, PeerAS: 65001, IPv4: &Family{}, Active: true})
	if err != nil {
		t.Fatal(err)
	}
	s0 := &Session{P: p, FSMIndex: 0}
	if st := s0.State(); st != "idle" {
		t.Fatalf("state %q", st)
	}
	if err := s0.Event(1 /* ManualStart */, StepTimeout); err != nil {
		t.Fatal(err)
	}
	s, err := p.DeliverOutgoing()
	if err != nil {
		t.Fatal(err)
	}
	if err := s.Establish(p.DefaultOpen()); err != nil {
		t.Fatal(err)
	}
	if !s.Established() {
		t.Fatal("not established")
	}
	s.SendNotification(6, 0)
	if r := s.Sync(); !r.Closed {
		t.Fatalf("%v", r)
	}
}
