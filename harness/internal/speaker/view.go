package speaker

import (
	"fmt"
	"sort"
	"strings"

	bnet "github.com/bio-routing/bio-rd/net"
	"github.com/bio-routing/bio-rd/route"

	"verifharness/internal/gen"
	"verifharness/internal/wire"
)

// PathView is the attribute projection of one stored path that the session checks compare:
// everything an UPDATE can say about a path, in a canonical text, plus where it came from.
type PathView struct {
	Pfx    gen.P  `json:"pfx"`
	PfxS   string `json:"pfx_s"`
	PathID uint32 `json:"path_id"`
	Type   uint8  `json:"type"`
	Source string `json:"source,omitempty"` // BGP: address of the peer it was learned from
	Hidden uint8  `json:"hidden,omitempty"`
	Attrs  string `json:"attrs"` // canonical attribute text, see AttrText
}

func (v PathView) String() string {
	return fmt.Sprintf("%s#%d src=%s hidden=%d {%s}", v.PfxS, v.PathID, v.Source, v.Hidden, v.Attrs)
}

// AttrFields is the content of a path in the vocabulary of both sides (bio-rd path / wire attributes).
type AttrFields struct {
	Origin       uint8
	ASPath       string // "2[1 2 3]1[4 5]" segments with type
	NextHop      string
	MED          uint32
	LocalPref    uint32
	Atomic       bool
	Aggregator   string
	Communities  []uint32
	LargeComms   []string
	OriginatorID uint32
	ClusterList  []uint32
	Unknown      []string
}

// Text renders the fields canonically.
func (a AttrFields) Text() string {
	var b strings.Builder
	fmt.Fprintf(&b, "origin=%d aspath=%s nh=%s med=%d lp=%d", a.Origin, a.ASPath, a.NextHop, a.MED, a.LocalPref)
	if a.Atomic {
		b.WriteString(" atomic")
	}
	if a.Aggregator != "" {
		fmt.Fprintf(&b, " aggr=%s", a.Aggregator)
	}
	if len(a.Communities) > 0 {
		fmt.Fprintf(&b, " comm=%v", a.Communities)
	}
	if len(a.LargeComms) > 0 {
		fmt.Fprintf(&b, " lcomm=%v", a.LargeComms)
	}
	if a.OriginatorID != 0 {
		fmt.Fprintf(&b, " orig=%d", a.OriginatorID)
	}
	if len(a.ClusterList) > 0 {
		fmt.Fprintf(&b, " cl=%v", a.ClusterList)
	}
	if len(a.Unknown) > 0 {
		u := append([]string(nil), a.Unknown...)
		sort.Strings(u)
		fmt.Fprintf(&b, " unk=%v", u)
	}
	return b.String()
}

// FieldsOfPath extracts the fields of a stored bio-rd BGP path.
func FieldsOfPath(p *route.Path) AttrFields {
	var a AttrFields
	if p == nil || p.BGPPath == nil {
		return a
	}
	bp := p.BGPPath
	if bp.ASPath != nil {
		var sb strings.Builder
		for _, s := range *bp.ASPath {
			fmt.Fprintf(&sb, "%d%v", s.Type, s.ASNs)
		}
		a.ASPath = sb.String()
	}
	if x := bp.BGPPathA; x != nil {
		a.Origin, a.MED, a.LocalPref, a.Atomic, a.OriginatorID = x.Origin, x.MED, x.LocalPref, x.AtomicAggregate, x.OriginatorID
		if x.NextHop != nil {
			a.NextHop = x.NextHop.String()
		}
		if x.Aggregator != nil {
			a.Aggregator = fmt.Sprintf("%d@%s", x.Aggregator.ASN, bnet.IPv4(x.Aggregator.Address).String())
		}
	}
	if bp.Communities != nil {
		a.Communities = append([]uint32(nil), *bp.Communities...)
	}
	if bp.LargeCommunities != nil {
		for _, c := range *bp.LargeCommunities {
			a.LargeComms = append(a.LargeComms, fmt.Sprintf("%d:%d:%d", c.GlobalAdministrator, c.DataPart1, c.DataPart2))
		}
	}
	if bp.ClusterList != nil {
		a.ClusterList = append([]uint32(nil), *bp.ClusterList...)
	}
	for _, u := range bp.UnknownAttributes {
		a.Unknown = append(a.Unknown, fmt.Sprintf("%d/%v%v%v=%x", u.TypeCode, u.Optional, u.Transitive, u.Partial, u.Value))
	}
	return a
}

// FieldsOfWire extracts the same fields from decoded wire attributes. nextHop overrides the
// NEXT_HOP attribute (pass the MP_REACH next hop for MP NLRI; nil: use NEXT_HOP).
func FieldsOfWire(pa *wire.PathAttrs, nextHop []byte) AttrFields {
	var a AttrFields
	if pa == nil {
		return a
	}
	if pa.Origin != nil {
		a.Origin = *pa.Origin
	}
	if pa.HasASPath || len(pa.ASPath) > 0 {
		var sb strings.Builder
		for _, s := range pa.ASPath {
			fmt.Fprintf(&sb, "%d%v", s.Type, s.ASNs)
		}
		a.ASPath = sb.String()
	}
	nh := pa.NextHop
	if nextHop != nil {
		nh = nextHop
	}
	if len(nh) == 4 || len(nh) == 16 {
		if ip, err := bnet.IPFromBytes(nh); err == nil {
			a.NextHop = ip.String()
		}
	} else if len(nh) == 32 {
		if ip, err := bnet.IPFromBytes(nh[:16]); err == nil {
			a.NextHop = ip.String()
		}
	}
	if pa.MED != nil {
		a.MED = *pa.MED
	}
	if pa.LocalPref != nil {
		a.LocalPref = *pa.LocalPref
	}
	a.Atomic = pa.AtomicAggregate
	if pa.Aggregator != nil {
		g := pa.Aggregator
		a.Aggregator = fmt.Sprintf("%d@%d.%d.%d.%d", g.AS, g.Addr[0], g.Addr[1], g.Addr[2], g.Addr[3])
	}
	a.Communities = append([]uint32(nil), pa.Communities...)
	for _, c := range pa.LargeCommunities {
		a.LargeComms = append(a.LargeComms, fmt.Sprintf("%d:%d:%d", c.Global, c.Local1, c.Local2))
	}
	if pa.OriginatorID != nil {
		a.OriginatorID = *pa.OriginatorID
	}
	a.ClusterList = append([]uint32(nil), pa.ClusterList...)
	for _, u := range pa.Unknown {
		if u.Flags&wire.FlagTransitive == 0 {
			continue // bio-rd keeps only transitive unknown attributes, which is what RFC 4271 §9 asks
		}
		a.Unknown = append(a.Unknown, fmt.Sprintf("%d/%v%v%v=%x", u.Type, u.Flags&wire.FlagOptional != 0, true, u.Flags&wire.FlagPartial != 0, u.Value))
	}
	return a
}

// Views projects a table dump. Paths are listed per prefix in table order.
func Views(dump []*route.Route) []PathView {
	var out []PathView
	for _, r := range dump {
		for _, p := range r.Paths() {
			v := PathView{Pfx: gen.FromBio(r.Prefix()), PfxS: r.Prefix().String(), Type: p.Type, Hidden: p.HiddenReason}
			if p.BGPPath != nil {
				v.PathID = p.BGPPath.PathIdentifier
				if p.BGPPath.BGPPathA != nil && p.BGPPath.BGPPathA.Source != nil {
					v.Source = p.BGPPath.BGPPathA.Source.String()
				}
				v.Attrs = FieldsOfPath(p).Text()
			} else if p.StaticPath != nil && p.StaticPath.NextHop != nil {
				v.Attrs = "static nh=" + p.StaticPath.NextHop.String()
			}
			out = append(out, v)
		}
	}
	sort.SliceStable(out, func(i, j int) bool {
		if out[i].Pfx.Key() != out[j].Pfx.Key() {
			return out[i].Pfx.Key() < out[j].Pfx.Key()
		}
		return out[i].PathID < out[j].PathID
	})
	return out
}

// FromSource keeps the BGP paths learned from the given peer address.
func FromSource(vs []PathView, src *bnet.IP) []PathView {
	var out []PathView
	s := src.String()
	for _, v := range vs {
		if v.Type == route.BGPPathType && v.Source == s {
			out = append(out, v)
		}
	}
	return out
}

// NLRIToP converts a wire NLRI to the harness prefix value (host bits cleared).
func NLRIToP(n wire.NLRI) gen.P {
	hi, lo := n.Bits()
	return gen.P{V4: n.AFI == wire.AFIIPv4, Hi: hi, Lo: lo, Len: n.Len}
}

// PToNLRI converts a harness prefix to a wire NLRI.
func PToNLRI(p gen.P) wire.NLRI { return wire.FromBits(p.V4, p.Hi, p.Lo, p.Len) }
