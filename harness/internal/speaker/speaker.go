package speaker

import (
	"errors"
	"fmt"
	"net"
	"sync"
	"sync/atomic"
	"time"

	bnet "github.com/bio-routing/bio-rd/net"
	"github.com/bio-routing/bio-rd/net/tcp"
	"github.com/bio-routing/bio-rd/protocols/bgp/server"
	"github.com/bio-routing/bio-rd/route"
	"github.com/bio-routing/bio-rd/routingtable"
	"github.com/bio-routing/bio-rd/routingtable/filter"
	"github.com/bio-routing/bio-rd/routingtable/filter/actions"
	"github.com/bio-routing/bio-rd/routingtable/locRIB"
	"github.com/bio-routing/bio-rd/routingtable/vrf"
	"github.com/bio-routing/bio-rd/util/log"

	"verifharness/internal/memconn"
	"verifharness/internal/wire"
)

// ---------------------------------------------------------------------------------------------
// logger

type discard struct{}

func (discard) Errorf(string, ...interface{})               {}
func (discard) Infof(string, ...interface{})                {}
func (discard) Debugf(string, ...interface{})               {}
func (discard) Error(string)                                {}
func (discard) Info(string)                                 {}
func (discard) Debug(string)                                {}
func (d discard) WithFields(log.Fields) log.LoggerInterface { return d }
func (d discard) WithError(error) log.LoggerInterface       { return d }

var logOnce sync.Once

// QuietLogs replaces bio-rd's global logger by one that discards everything (idempotent).
func QuietLogs() { logOnce.Do(func() { log.SetLogger(discard{}) }) }

// ---------------------------------------------------------------------------------------------
// listener manager

type listenerManager struct{ ch chan tcp.ConnWithVRF }

func (l *listenerManager) ListenAddrsPerVRF(*vrf.VRF) []string       { return nil }
func (l *listenerManager) GetListeners(*vrf.VRF) []tcp.ListenerI     { return nil }
func (l *listenerManager) CreateListenersIfNotExists(*vrf.VRF) error { return nil }
func (l *listenerManager) AcceptCh() chan tcp.ConnWithVRF            { return l.ch }

// ---------------------------------------------------------------------------------------------
// server

// Timeouts used by the helpers. They are watchdogs, never verdicts: a helper that runs into one
// returns an error / a negative result that the check must treat as inconclusive unless the
// property itself is about the missing event.
var (
	// StepTimeout bounds every single wait (a byte sequence on the wire, a state, reader idle).
	StepTimeout = 10 * time.Second
	// CeaseGrace is how long a barrier may stay unaccepted on a connection bio-rd closed before the
	// FSM is taken to have ended (run() returned through the cease state).
	CeaseGrace = 300 * time.Millisecond
	// PollEvery is the period of state polls through the hook.
	PollEvery = 300 * time.Microsecond
)

// ServerConfig configures NewServer.
type ServerConfig struct {
	RouterID         uint32  // default 10.0.0.1
	DefaultLocalPref *uint32 // nil: bio-rd's default (100)
}

// Server is one bio-rd BGP server under harness control.
type Server struct {
	B        server.BGPServer
	VRF      *vrf.VRF
	RouterID uint32

	lm     *listenerManager
	nextIP atomic.Uint32
}

// NewServer builds and starts a server. It never listens on a socket.
func NewServer(cfg ServerConfig) *Server {
	QuietLogs()
	if cfg.RouterID == 0 {
		cfg.RouterID = 0x0a000001
	}
	v := vrf.NewUntrackedVRF(vrf.DefaultVRFName, 0)
	v.CreateIPv4UnicastLocRIB("inet.0")
	v.CreateIPv6UnicastLocRIB("inet6.0")
	s := &Server{VRF: v, RouterID: cfg.RouterID, lm: &listenerManager{ch: make(chan tcp.ConnWithVRF)}}
	s.B = server.NewBGPServer(server.BGPServerConfig{RouterID: cfg.RouterID, DefaultVRF: v, DefaultLocalPreference: cfg.DefaultLocalPref})
	s.B.SetListenerManager(s.lm)
	s.B.Start()
	return s
}

// RIB returns the Loc-RIB of a family.
func (s *Server) RIB(v4 bool) *locRIB.LocRIB {
	if v4 {
		return s.VRF.IPv4UnicastRIB()
	}
	return s.VRF.IPv6UnicastRIB()
}

// Dump dumps the Loc-RIB of a family.
func (s *Server) Dump(v4 bool) []*route.Route { return s.RIB(v4).Dump() }

// ClientCount is LocRIB.ClientCount() of a family (one client per attached Adj-RIB-Out, plus whatever the check registered).
func (s *Server) ClientCount(v4 bool) uint64 { return s.RIB(v4).ClientCount() }

// AddStatic puts a static route into the Loc-RIB; bio-rd redistributes it to every BGP peer with
// the given next hop (a unique next hop identifies the route on the wire).
func (s *Server) AddStatic(pfx *bnet.Prefix, nextHop bnet.IP) {
	s.RIB(pfx.Addr().IsIPv4()).AddPath(pfx, StaticPath(nextHop))
}

// RemoveStatic removes a route added with AddStatic.
func (s *Server) RemoveStatic(pfx *bnet.Prefix, nextHop bnet.IP) {
	s.RIB(pfx.Addr().IsIPv4()).RemovePath(pfx, StaticPath(nextHop))
}

// StaticPath builds a fresh static path (never reuse a path handed to bio-rd).
func StaticPath(nextHop bnet.IP) *route.Path {
	return &route.Path{Type: route.StaticPathType, StaticPath: &route.StaticPath{NextHop: nextHop.Ptr()}}
}

// ---------------------------------------------------------------------------------------------
// filter chains

// Accept accepts everything unchanged.
func Accept() filter.Chain { return filter.NewAcceptAllFilterChain() }

// Reject rejects everything.
func Reject() filter.Chain { return filter.NewDrainFilterChain() }

func rewrite(name string, a actions.Action) filter.Chain {
	return filter.Chain{filter.NewFilter(name, []*filter.Term{
		filter.NewTerm(name, nil, []actions.Action{a, actions.NewAcceptAction()}),
	})}
}

// SetLocalPref sets LOCAL_PREF and accepts.
func SetLocalPref(v uint32) filter.Chain { return rewrite("SET_LP", actions.NewSetLocalPrefAction(v)) }

// SetMED sets MED and accepts.
func SetMED(v uint32) filter.Chain { return rewrite("SET_MED", actions.NewSetMEDAction(v)) }

// Prepend prepends asn n times and accepts.
func Prepend(asn uint32, n uint16) filter.Chain {
	return rewrite("PREPEND", actions.NewASPathPrependAction(asn, n))
}

// ---------------------------------------------------------------------------------------------
// peers

// Family is the per address family configuration of a peer.
type Family struct {
	AddPathRecv bool // bio-rd accepts path identifiers from the peer
	AddPathSend bool // bio-rd sends up to MaxPaths paths per prefix with path identifiers
	MaxPaths    uint // default 8 when AddPathSend
	// NextHopExtended (IPv4 only): bio-rd advertises the extended next hop encoding capability (RFC 8950) and,
	// with it, the multiprotocol capability for IPv4 unicast
	NextHopExtended bool
	Import          filter.Chain // nil: accept all (bio-rd's own default for an empty chain is reject all)
	Export          filter.Chain // nil: accept all
}

// PeerConfig describes a peer of the server. The zero value of most fields is a sensible default.
type PeerConfig struct {
	LocalAS uint32 // default 65000
	PeerAS  uint32 // default = LocalAS (iBGP)
	// PeerAddr is the address bio-rd knows the peer by; default 127.0.<n>.<n> unique per server.
	PeerAddr        *bnet.IP
	LocalAddr       *bnet.IP      // default 127.0.0.1
	HoldTime        time.Duration // default 90 s; bio-rd offers HoldTime/second in its OPEN
	NoHold          bool          // offer hold time 0
	RRClient        bool
	ClusterID       uint32
	RSClient        bool
	Role            uint8 // server.PeerConfigRole*; 0 = off
	RoleStrict      bool
	IPv4            *Family
	IPv6            *Family
	AdvertiseIPv4MP bool // bio-rd advertises the multiprotocol capability for IPv4 unicast
	// Active makes bio-rd the connecting side (one FSM that waits in Idle for a start event; the
	// harness stands in for the TCP connector with DeliverOutgoing). Default: passive.
	Active bool
}

// Peer is a configured peer.
type Peer struct {
	S    *Server
	Cfg  PeerConfig
	Addr *bnet.IP
	Bio  server.PeerConfig // what was handed to AddPeer
}

func chainOr(c filter.Chain) filter.Chain {
	if len(c) == 0 {
		return Accept()
	}
	return c
}

func famCfg(f *Family) *server.AddressFamilyConfig {
	if f == nil {
		return nil
	}
	a := &server.AddressFamilyConfig{
		ImportFilterChain: chainOr(f.Import),
		ExportFilterChain: chainOr(f.Export),
		AddPathRecv:       f.AddPathRecv,
		AddPathSend:       routingtable.ClientOptions{BestOnly: true},
		NextHopExtended:   f.NextHopExtended,
	}
	if f.AddPathSend {
		mp := f.MaxPaths
		if mp == 0 {
			mp = 8
		}
		a.AddPathSend = routingtable.ClientOptions{MaxPaths: mp}
	}
	return a
}

// AddPeer configures a peer on the server.
func (s *Server) AddPeer(cfg PeerConfig) (*Peer, error) {
	if cfg.LocalAS == 0 {
		cfg.LocalAS = 65000
	}
	if cfg.PeerAS == 0 {
		cfg.PeerAS = cfg.LocalAS
	}
	if cfg.PeerAddr == nil {
		n := s.nextIP.Add(1)
		cfg.PeerAddr = bnet.IPv4FromOctets(127, 0, byte(1+n/250), byte(1+n%250)).Ptr()
	}
	if cfg.LocalAddr == nil {
		cfg.LocalAddr = bnet.IPv4FromOctets(127, 0, 0, 1).Ptr()
	}
	if cfg.HoldTime == 0 && !cfg.NoHold {
		cfg.HoldTime = 90 * time.Second
	}
	if cfg.NoHold {
		cfg.HoldTime = 0
	}
	if cfg.IPv4 == nil && cfg.IPv6 == nil {
		cfg.IPv4 = &Family{}
	}
	bc := server.PeerConfig{
		AdminEnabled:               true,
		KeepAlive:                  cfg.HoldTime / 3,
		HoldTime:                   cfg.HoldTime,
		LocalAddress:               cfg.LocalAddr,
		PeerAddress:                cfg.PeerAddr,
		LocalAS:                    cfg.LocalAS,
		PeerAS:                     cfg.PeerAS,
		Passive:                    !cfg.Active,
		RouterID:                   s.RouterID,
		RouteServerClient:          cfg.RSClient,
		RouteReflectorClient:       cfg.RRClient,
		RouteReflectorClusterID:    cfg.ClusterID,
		AdvertiseIPv4MultiProtocol: cfg.AdvertiseIPv4MP,
		PeerRole:                   cfg.Role,
		PeerRoleStrictMode:         cfg.RoleStrict,
		IPv4:                       famCfg(cfg.IPv4),
		IPv6:                       famCfg(cfg.IPv6),
		VRF:                        s.VRF,
	}
	if err := s.B.AddPeer(bc); err != nil {
		return nil, err
	}
	return &Peer{S: s, Cfg: cfg, Addr: cfg.PeerAddr.Dedup(), Bio: bc}, nil
}

// IBGP reports whether the peer is internal.
func (p *Peer) IBGP() bool { return p.Cfg.LocalAS == p.Cfg.PeerAS }

// FSMs is the hook snapshot of all FSMs of the peer.
func (p *Peer) FSMs() []server.VerifFSMInfo { return server.VerifPeerFSMs(p.S.B, p.S.VRF, p.Addr) }

// Dispose is BGPServer.DisposePeer run in a goroutine with a watchdog (it blocks for ever when one
// of the peer's FSMs has ceased). It reports whether the call returned.
func (p *Peer) Dispose(timeout time.Duration) bool {
	done := make(chan struct{})
	go func() { p.S.B.DisposePeer(p.S.VRF, p.Addr); close(done) }()
	t := time.NewTimer(timeout)
	defer t.Stop()
	select {
	case <-done:
		return true
	case <-t.C:
		return false
	}
}

// ---------------------------------------------------------------------------------------------
// sessions

// Session is one connection of the harness (as the remote speaker) to a peer's FSM.
type Session struct {
	P        *Peer
	Conn     *memconn.Conn
	FSMIndex int // index into the peer's FSM list; -1: bio-rd refused the connection

	SUTOpen *wire.Open // bio-rd's OPEN, once seen (WaitSUTOpen / Establish)
	MyOpen  *wire.Open // the OPEN the harness sent
	Neg     Negotiated // what the two OPENs negotiate per the RFCs (reference, not bio-rd's view)
}

func (p *Peer) newConn() *memconn.Conn {
	return memconn.New(
		&net.TCPAddr{IP: p.Cfg.LocalAddr.ToNetIP(), Port: 179},
		&net.TCPAddr{IP: p.Addr.ToNetIP()})
}

func (p *Peer) findFSM(c *memconn.Conn) int {
	for _, f := range p.FSMs() {
		if f.HasConn && f.RemoteAddr == c.RemoteString() {
			return f.Index
		}
	}
	return -1
}

// Connect opens a new incoming connection to bio-rd (through the listener manager's accept channel)
// and waits until the FSM created for it holds the connection.
func (p *Peer) Connect() (*Session, error) {
	c := p.newConn()
	s := &Session{P: p, Conn: c, FSMIndex: -1}
	t := time.NewTimer(StepTimeout)
	defer t.Stop()
	select {
	case p.S.lm.ch <- tcp.ConnWithVRF{Conn: c, VRF: p.S.VRF}:
	case <-t.C:
		return s, errors.New("speaker: bio-rd does not accept connections (incoming connection worker blocked)")
	}
	deadline := time.Now().Add(StepTimeout)
	for {
		if i := p.findFSM(c); i >= 0 {
			s.FSMIndex = i
			return s, nil
		}
		if c.IsClosed() {
			return s, errors.New("speaker: bio-rd closed the connection at once (unknown peer?)")
		}
		if time.Now().After(deadline) {
			return s, errors.New("speaker: no FSM took the connection")
		}
		time.Sleep(PollEvery)
	}
}

// DeliverOutgoing hands a fresh connection to FSM 0 of an Active peer as if its TCP connector had
// succeeded (the FSM must be in Connect or Active state, i.e. after a start event).
func (p *Peer) DeliverOutgoing() (*Session, error) {
	c := p.newConn()
	s := &Session{P: p, Conn: c, FSMIndex: 0}
	if err := server.VerifFSMDeliverConn(p.S.B, p.S.VRF, p.Addr, 0, c, StepTimeout); err != nil {
		return s, err
	}
	return s, nil
}

// Event sends an administrative event (server.ManualStop, server.AutomaticStop, server.Cease, …) to this session's FSM.
func (s *Session) Event(ev int, timeout time.Duration) error {
	return server.VerifFSMEvent(s.P.S.B, s.P.S.VRF, s.P.Addr, s.FSMIndex, ev, timeout)
}

// Info returns the hook snapshot of this session's FSM.
func (s *Session) Info() (server.VerifFSMInfo, bool) {
	fs := s.P.FSMs()
	if s.FSMIndex < 0 || s.FSMIndex >= len(fs) {
		return server.VerifFSMInfo{}, false
	}
	return fs[s.FSMIndex], true
}

// State is the published state name of this session's FSM ("" if unknown).
func (s *Session) State() string {
	i, _ := s.Info()
	return i.State
}

// Established: the FSM's published state is established, it still holds THIS connection and bio-rd has not closed it.
func (s *Session) Established() bool {
	i, ok := s.Info()
	return ok && i.State == "established" && i.RemoteAddr == s.Conn.RemoteString() && !s.Conn.IsClosed()
}

// WaitState polls the FSM state until pred holds; it returns the last snapshot and whether pred held.
func (s *Session) WaitState(timeout time.Duration, pred func(server.VerifFSMInfo) bool) (server.VerifFSMInfo, bool) {
	deadline := time.Now().Add(timeout)
	for {
		i, ok := s.Info()
		if ok && pred(i) {
			return i, true
		}
		if time.Now().After(deadline) {
			return i, false
		}
		time.Sleep(PollEvery)
	}
}

// Send injects raw bytes; false if bio-rd already closed the connection.
func (s *Session) Send(b []byte) bool { return s.Conn.Inject(b) }

// SendKeepalive sends a KEEPALIVE.
func (s *Session) SendKeepalive() bool { return s.Send(wire.Keepalive()) }

// SendNotification sends a NOTIFICATION.
func (s *Session) SendNotification(code, sub uint8) bool {
	return s.Send((&wire.Notification{Code: code, Subcode: sub}).Encode())
}

// SendUpdate encodes u under the negotiated harness→bio-rd options and sends it.
func (s *Session) SendUpdate(u *wire.Update) error {
	b, err := u.Encode(s.Neg.SendOpts())
	if err != nil {
		return err
	}
	if !s.Send(b) {
		return errors.New("speaker: connection closed by bio-rd")
	}
	return nil
}

// SyncResult is the outcome of Sync.
type SyncResult struct {
	Idle    bool // bio-rd's reader is parked with all input consumed
	Closed  bool // bio-rd closed the connection
	Barrier bool // the FSM accepted the barrier event afterwards
}

// OK: everything sent so far has been processed and the session's FSM goroutine is alive.
func (r SyncResult) OK() bool { return (r.Idle || r.Closed) && r.Barrier }

func (r SyncResult) String() string {
	return fmt.Sprintf("idle=%v closed=%v barrier=%v", r.Idle, r.Closed, r.Barrier)
}

// Sync is the synchronisation point described in the package documentation.
func (s *Session) Sync() SyncResult {
	var r SyncResult
	switch s.Conn.WaitReaderIdle(StepTimeout) {
	case memconn.ReaderIdle:
		r.Idle = true
	case memconn.SUTClosed:
		r.Closed = true
	default:
		return r
	}
	to := StepTimeout
	if r.Closed {
		to = CeaseGrace
	}
	r.Barrier = server.VerifFSMSync(s.P.S.B, s.P.S.VRF, s.P.Addr, s.FSMIndex, to) == nil
	if r.Idle && s.Conn.IsClosed() {
		// closed while/after the barrier: report it, the barrier already proves the handler returned
		r.Closed = true
	}
	return r
}

// Barrier sends only the barrier event (for FSMs without connection, e.g. after a teardown).
func (s *Session) Barrier(timeout time.Duration) bool {
	return server.VerifFSMSync(s.P.S.B, s.P.S.VRF, s.P.Addr, s.FSMIndex, timeout) == nil
}

// Messages cuts everything bio-rd wrote so far into messages. err is the framing error of the
// first byte sequence that is not a BGP message (none expected from bio-rd).
func (s *Session) Messages() (msgs []wire.Message, rest []byte, err error) {
	return wire.Split(s.Conn.Out())
}

// WaitMessages waits until bio-rd wrote at least n complete messages (or closed the connection) and returns all of them.
func (s *Session) WaitMessages(n int, timeout time.Duration) ([]wire.Message, bool) {
	ok := s.Conn.WaitOut(timeout, func(out []byte) bool {
		m, _, _ := wire.Split(out)
		return len(m) >= n
	})
	m, _, _ := s.Messages()
	return m, ok
}

// WaitMessage waits until a message satisfying pred is among what bio-rd wrote.
func (s *Session) WaitMessage(timeout time.Duration, pred func(wire.Message) bool) (wire.Message, bool) {
	var found wire.Message
	ok := s.Conn.WaitOut(timeout, func(out []byte) bool {
		m, _, _ := wire.Split(out)
		for _, x := range m {
			if pred(x) {
				found = wire.Message{Type: x.Type, Body: append([]byte(nil), x.Body...), Raw: append([]byte(nil), x.Raw...)}
				return true
			}
		}
		return false
	})
	return found, ok
}

// Notifications decodes every NOTIFICATION bio-rd wrote.
func (s *Session) Notifications() []*wire.Notification {
	var out []*wire.Notification
	m, _, _ := s.Messages()
	for _, x := range m {
		if x.Type == wire.TypeNotification {
			if n, err := wire.DecodeNotification(x.Body); err == nil {
				out = append(out, n)
			}
		}
	}
	return out
}

// DecodedUpdate is an UPDATE bio-rd wrote, decoded under the negotiated bio-rd→harness options.
type DecodedUpdate struct {
	Index int // position among all messages of the connection
	Raw   []byte
	U     *wire.Update // nil when Err != nil
	Err   error
}

// Updates decodes every UPDATE bio-rd wrote so far with internal/wire under s.Neg.RecvOpts().
func (s *Session) Updates() []DecodedUpdate {
	var out []DecodedUpdate
	m, _, _ := s.Messages()
	for i, x := range m {
		if x.Type != wire.TypeUpdate {
			continue
		}
		u, err := wire.DecodeUpdate(x.Body, s.Neg.RecvOpts())
		out = append(out, DecodedUpdate{Index: i, Raw: x.Raw, U: u, Err: err})
	}
	return out
}

// WaitSUTOpen waits for bio-rd's OPEN (the first message it writes) and decodes it.
func (s *Session) WaitSUTOpen() (*wire.Open, error) {
	m, ok := s.WaitMessages(1, StepTimeout)
	if !ok || len(m) == 0 {
		return nil, errors.New("speaker: bio-rd sent no OPEN")
	}
	if m[0].Type != wire.TypeOpen {
		return nil, fmt.Errorf("speaker: first message of bio-rd has type %d", m[0].Type)
	}
	o, err := wire.DecodeOpen(m[0].Body)
	if err != nil {
		return nil, err
	}
	s.SUTOpen = o
	return o, nil
}

// SendOpen sends the harness' OPEN and records what the two OPENs negotiate.
func (s *Session) SendOpen(o *wire.Open) bool {
	s.MyOpen = o
	if s.SUTOpen != nil {
		s.Neg = Negotiate(s.SUTOpen, o)
	}
	return s.Send(o.Encode())
}

// Establish runs the handshake: wait for bio-rd's OPEN, send ours, wait for bio-rd's KEEPALIVE,
// send a KEEPALIVE, synchronise, and require Established.
func (s *Session) Establish(o *wire.Open) error {
	if _, err := s.WaitSUTOpen(); err != nil {
		return err
	}
	if !s.SendOpen(o) {
		return errors.New("speaker: connection closed before our OPEN")
	}
	if _, ok := s.WaitMessage(StepTimeout, func(m wire.Message) bool { return m.Type == wire.TypeKeepalive }); !ok {
		return fmt.Errorf("speaker: no KEEPALIVE from bio-rd after our OPEN (state %s, closed=%v, notifications=%v)", s.State(), s.Conn.IsClosed(), s.Notifications())
	}
	if !s.SendKeepalive() {
		return errors.New("speaker: connection closed before our KEEPALIVE")
	}
	if r := s.Sync(); !r.OK() {
		return fmt.Errorf("speaker: no synchronisation after KEEPALIVE (%v)", r)
	}
	if !s.Established() {
		return fmt.Errorf("speaker: not established (state %s, closed=%v)", s.State(), s.Conn.IsClosed())
	}
	return nil
}

// RIBIn dumps the Adj-RIB-In of this session's FSM for a family (nil, false when none is attached).
func (s *Session) RIBIn(v4 bool) ([]*route.Route, bool) {
	in, _ := server.VerifFSMRIBs(s.P.S.B, s.P.S.VRF, s.P.Addr, s.FSMIndex, afi(v4))
	if in == nil {
		return nil, false
	}
	return in.Dump(), true
}

// RIBOut dumps the Adj-RIB-Out of this session's FSM for a family.
func (s *Session) RIBOut(v4 bool) ([]*route.Route, bool) {
	_, out := server.VerifFSMRIBs(s.P.S.B, s.P.S.VRF, s.P.Addr, s.FSMIndex, afi(v4))
	if out == nil {
		return nil, false
	}
	return out.Dump(), true
}

func afi(v4 bool) uint16 {
	if v4 {
		return wire.AFIIPv4
	}
	return wire.AFIIPv6
}

// ---------------------------------------------------------------------------------------------
// reference negotiation (RFC 4271 §4.2, RFC 5492, RFC 4760 §8, RFC 6793 §4.1, RFC 7911 §4)

// Negotiated is what two OPEN messages negotiate according to the RFCs.
type Negotiated struct {
	HoldTime uint16 // min of both offers
	AS4      bool   // both sent capability 65
	MPv4     bool   // both sent multiprotocol IPv4 unicast
	MPv6     bool   // both sent multiprotocol IPv6 unicast
	// add-path per direction and family: the sender advertised "send", the receiver "receive"
	FromSUTAddPathV4, FromSUTAddPathV6 bool // bio-rd → harness NLRI carry path identifiers
	ToSUTAddPathV4, ToSUTAddPathV6     bool // harness → bio-rd NLRI carry path identifiers
}

func hasMP(o *wire.Open, f wire.Family) bool {
	for _, x := range o.MP() {
		if x == f {
			return true
		}
	}
	return false
}

func addPathMode(o *wire.Open, f wire.Family) uint8 {
	var m uint8
	for _, t := range o.AddPath() {
		if t.Family == f && t.Mode <= 3 {
			m |= t.Mode
		}
	}
	return m
}

// Negotiate computes the reference result for bio-rd's OPEN (sut) and the harness' OPEN (me).
func Negotiate(sut, me *wire.Open) Negotiated {
	n := Negotiated{HoldTime: sut.HoldTime}
	if me.HoldTime < n.HoldTime {
		n.HoldTime = me.HoldTime
	}
	_, a := sut.AS4()
	_, b := me.AS4()
	n.AS4 = a && b
	n.MPv4 = hasMP(sut, wire.IPv4Unicast) && hasMP(me, wire.IPv4Unicast)
	n.MPv6 = hasMP(sut, wire.IPv6Unicast) && hasMP(me, wire.IPv6Unicast)
	const recv, send = 1, 2
	n.FromSUTAddPathV4 = addPathMode(sut, wire.IPv4Unicast)&send != 0 && addPathMode(me, wire.IPv4Unicast)&recv != 0
	n.FromSUTAddPathV6 = addPathMode(sut, wire.IPv6Unicast)&send != 0 && addPathMode(me, wire.IPv6Unicast)&recv != 0
	n.ToSUTAddPathV4 = addPathMode(me, wire.IPv4Unicast)&send != 0 && addPathMode(sut, wire.IPv4Unicast)&recv != 0
	n.ToSUTAddPathV6 = addPathMode(me, wire.IPv6Unicast)&send != 0 && addPathMode(sut, wire.IPv6Unicast)&recv != 0
	return n
}

// SendOpts are the encode options for what the harness sends to bio-rd.
func (n Negotiated) SendOpts() wire.Options {
	return wire.Options{AS4: n.AS4, AddPathIPv4: n.ToSUTAddPathV4, AddPathIPv6: n.ToSUTAddPathV6}
}

// RecvOpts are the decode options for what bio-rd sends to the harness.
func (n Negotiated) RecvOpts() wire.Options {
	return wire.Options{AS4: n.AS4, AddPathIPv4: n.FromSUTAddPathV4, AddPathIPv6: n.FromSUTAddPathV6}
}

// Role capability values of RFC 9234.
const (
	RoleProvider = 0
	RoleRS       = 1
	RoleRSClient = 2
	RoleCustomer = 3
	RolePeer     = 4
)

// ConfigRoleToWire maps server.PeerConfigRole* to the RFC 9234 capability value (ok false: role off).
func ConfigRoleToWire(r uint8) (uint8, bool) {
	switch r {
	case server.PeerConfigRoleProvider:
		return RoleProvider, true
	case server.PeerConfigRoleRS:
		return RoleRS, true
	case server.PeerConfigRoleRSClient:
		return RoleRSClient, true
	case server.PeerConfigRoleCustomer:
		return RoleCustomer, true
	case server.PeerConfigRolePeer:
		return RolePeer, true
	}
	return 0, false
}

// RolesCompatible is the RFC 9234 §4.2 table.
func RolesCompatible(a, b uint8) bool {
	switch a {
	case RoleProvider:
		return b == RoleCustomer
	case RoleCustomer:
		return b == RoleProvider
	case RoleRS:
		return b == RoleRSClient
	case RoleRSClient:
		return b == RoleRS
	case RolePeer:
		return b == RolePeer
	}
	return false
}

func counterRole(r uint8) uint8 {
	switch r {
	case RoleProvider:
		return RoleCustomer
	case RoleCustomer:
		return RoleProvider
	case RoleRS:
		return RoleRSClient
	case RoleRSClient:
		return RoleRS
	}
	return RolePeer
}

// ASTrans is AS_TRANS (RFC 6793).
const ASTrans = 23456

// DefaultOpen is an OPEN that matches the peer's configuration in every respect: right AS (with
// AS_TRANS for a 4-octet AS), identifier 10.9.x.y different from the server's, hold time 90,
// capability 65, multiprotocol capabilities for the configured families (IPv4 only when bio-rd
// advertises it), add-path capabilities mirroring bio-rd's, and the complementary role.
func (p *Peer) DefaultOpen() *wire.Open {
	o := &wire.Open{Version: 4, HoldTime: 90, ID: 0x0a090000 | (p.Addr.ToUint32() & 0xffff)}
	if o.ID == p.S.RouterID {
		o.ID ^= 0x00010000
	}
	if p.Cfg.PeerAS > 0xffff {
		o.AS = ASTrans
	} else {
		o.AS = uint16(p.Cfg.PeerAS)
	}
	o.Caps = append(o.Caps, wire.CapAS4(p.Cfg.PeerAS))
	if p.Cfg.IPv4 != nil && p.Cfg.AdvertiseIPv4MP {
		o.Caps = append(o.Caps, wire.CapMP(wire.IPv4Unicast))
	}
	if p.Cfg.IPv6 != nil {
		o.Caps = append(o.Caps, wire.CapMP(wire.IPv6Unicast))
	}
	var ts []wire.AddPathTuple
	mirror := func(f *Family, fam wire.Family) {
		if f == nil {
			return
		}
		var m uint8
		if f.AddPathRecv {
			m |= 2 // we send
		}
		if f.AddPathSend {
			m |= 1 // we receive
		}
		if m != 0 {
			ts = append(ts, wire.AddPathTuple{Family: fam, Mode: m})
		}
	}
	mirror(p.Cfg.IPv4, wire.IPv4Unicast)
	mirror(p.Cfg.IPv6, wire.IPv6Unicast)
	if len(ts) > 0 {
		o.Caps = append(o.Caps, wire.CapAddPath(ts...))
	}
	if r, ok := ConfigRoleToWire(p.Cfg.Role); ok && !p.IBGP() {
		o.Caps = append(o.Caps, wire.CapRole(counterRole(r)))
	}
	return o
}

// EstablishDefault connects and establishes with DefaultOpen.
func (p *Peer) EstablishDefault() (*Session, error) {
	s, err := p.Connect()
	if err != nil {
		return s, err
	}
	return s, s.Establish(p.DefaultOpen())
}
