module verifharness

go 1.23.0

toolchain go1.23.5

require (
	github.com/anishathalye/porcupine v1.3.0
	github.com/bio-routing/bio-rd v0.0.0
	go.etcd.io/gofail v0.2.0
)

require (
	github.com/bio-routing/tflow2 v0.0.0-20181230153523-2e308a4a3c3a // indirect
	google.golang.org/protobuf v1.33.0 // indirect
)

replace github.com/bio-routing/bio-rd => /repo
