// Injected into github.com/bio-routing/bio-rd/protocols/bgp/server with `go test -overlay` for property C36
// (never written to /repo): PeerKey has unexported fields, a fake BGPServer outside the package cannot build one.
package server

import (
	bnet "github.com/bio-routing/bio-rd/net"
	"github.com/bio-routing/bio-rd/routingtable/vrf"
)

// C36NewPeerKey builds a PeerKey.
func C36NewPeerKey(v *vrf.VRF, ip *bnet.IP) PeerKey {
	return PeerKey{vrf: v, neighborIP: ip}
}
