// Injected into /repo/cmd/bio-rd (package main) with `go test -overlay` for property C36; never written to /repo.
// A dumb driver: for every job (a list of YAML configurations) it starts from a fresh VRF registry and a fresh
// recording fake BGPServer, feeds the configurations one after the other through the real config.GetConfig and
// the real loadConfig (as configReloader does) and prints the resulting peers as JSON. Generation and the oracle
// live in /verif/harness/cmd/c36.
package main

import (
	"crypto/sha1"
	"encoding/json"
	"fmt"
	"os"
	"path/filepath"
	"runtime"
	"sort"
	"strings"
	"testing"

	"github.com/bio-routing/bio-rd/cmd/bio-rd/config"
	bnet "github.com/bio-routing/bio-rd/net"
	btcp "github.com/bio-routing/bio-rd/net/tcp"
	"github.com/bio-routing/bio-rd/protocols/bgp/metrics"
	bgpserver "github.com/bio-routing/bio-rd/protocols/bgp/server"
	"github.com/bio-routing/bio-rd/protocols/bgp/types"
	"github.com/bio-routing/bio-rd/route"
	"github.com/bio-routing/bio-rd/routingtable/adjRIBIn"
	"github.com/bio-routing/bio-rd/routingtable/adjRIBOut"
	"github.com/bio-routing/bio-rd/routingtable/filter"
	"github.com/bio-routing/bio-rd/routingtable/vrf"
	"github.com/bio-routing/bio-rd/util/log"
)

type c36Key struct {
	vrf  *vrf.VRF
	addr bnet.IP
}

type c36Peer struct {
	cfg      bgpserver.PeerConfig
	imp, exp filter.Chain // effective chains (both families share them, as in the real peer)
}

type c36Fake struct {
	routerID uint32
	defVRF   *vrf.VRF
	peers    map[c36Key]*c36Peer
	calls    []string
	anomaly  []string
}

func (f *c36Fake) key(v *vrf.VRF, ip *bnet.IP) c36Key { return c36Key{vrf: v, addr: *ip} }
func (f *c36Fake) name(v *vrf.VRF, ip *bnet.IP) string {
	vn := "<nil>"
	if v != nil {
		vn = v.Name()
	}
	return vn + "/" + ip.String()
}
func (f *c36Fake) RouterID() uint32 { return f.routerID }
func (f *c36Fake) Start()           {}
func (f *c36Fake) AddPeer(c bgpserver.PeerConfig) error {
	f.calls = append(f.calls, "AddPeer "+f.name(c.VRF, c.PeerAddress))
	k := f.key(c.VRF, c.PeerAddress)
	if _, ok := f.peers[k]; ok {
		f.anomaly = append(f.anomaly, "AddPeer for an existing peer "+f.name(c.VRF, c.PeerAddress))
	}
	p := &c36Peer{cfg: c}
	// as newPeer does: the chains of a present family, default = accept all
	switch {
	case c.IPv4 != nil:
		p.imp, p.exp = c.IPv4.ImportFilterChain, c.IPv4.ExportFilterChain
	case c.IPv6 != nil:
		p.imp, p.exp = c.IPv6.ImportFilterChain, c.IPv6.ExportFilterChain
	}
	f.peers[k] = p
	return nil
}
func (f *c36Fake) GetPeerConfig(v *vrf.VRF, ip *bnet.IP) *bgpserver.PeerConfig {
	if p, ok := f.peers[f.key(v, ip)]; ok {
		return &p.cfg
	}
	return nil
}
func (f *c36Fake) DisposePeer(v *vrf.VRF, ip *bnet.IP) {
	f.calls = append(f.calls, "DisposePeer "+f.name(v, ip))
	delete(f.peers, f.key(v, ip))
}
func (f *c36Fake) GetPeers() []bgpserver.PeerKey {
	var ks []c36Key
	for k := range f.peers {
		ks = append(ks, k)
	}
	sort.Slice(ks, func(i, j int) bool { return f.name(ks[i].vrf, &ks[i].addr) < f.name(ks[j].vrf, &ks[j].addr) })
	out := make([]bgpserver.PeerKey, 0, len(ks))
	for _, k := range ks {
		a := k.addr
		out = append(out, bgpserver.C36NewPeerKey(k.vrf, a.Dedup()))
	}
	return out
}
func (f *c36Fake) Metrics() (*metrics.BGPMetrics, error)                            { return nil, fmt.Errorf("fake") }
func (f *c36Fake) GetRIBIn(*vrf.VRF, *bnet.IP, uint16, uint8) *adjRIBIn.AdjRIBIn    { return nil }
func (f *c36Fake) GetRIBOut(*vrf.VRF, *bnet.IP, uint16, uint8) *adjRIBOut.AdjRIBOut { return nil }
func (f *c36Fake) ReplaceImportFilterChain(v *vrf.VRF, ip *bnet.IP, c filter.Chain) error {
	f.calls = append(f.calls, "ReplaceImportFilterChain "+f.name(v, ip))
	p, ok := f.peers[f.key(v, ip)]
	if !ok {
		return fmt.Errorf("peer %q not found", ip.String())
	}
	p.imp = c
	return nil
}
func (f *c36Fake) ReplaceExportFilterChain(v *vrf.VRF, ip *bnet.IP, c filter.Chain) error {
	f.calls = append(f.calls, "ReplaceExportFilterChain "+f.name(v, ip))
	p, ok := f.peers[f.key(v, ip)]
	if !ok {
		return fmt.Errorf("peer %q not found", ip.String())
	}
	p.exp = c
	return nil
}
func (f *c36Fake) GetDefaultVRF() *vrf.VRF                  { return f.defVRF }
func (f *c36Fake) SetListenerManager(btcp.ListenerManagerI) {}

// ---- snapshot ----

type c36AF struct {
	AddPathRecv     bool `json:"add_path_recv"`
	AddPathBestOnly bool `json:"add_path_send_best_only"`
	AddPathMaxPaths uint `json:"add_path_send_max_paths"`
	NextHopExtended bool `json:"next_hop_extended"`
}

type c36Chain struct {
	Names     []string `json:"names"`
	Behaviour string   `json:"behaviour"` // digest of the outcomes on the probe corpus
}

type c36PeerOut struct {
	VRF      string            `json:"vrf"`
	Addr     string            `json:"addr"`
	Settings map[string]string `json:"settings"`
	IPv4     *c36AF            `json:"ipv4"`
	IPv6     *c36AF            `json:"ipv6"`
	Import   c36Chain          `json:"import"`
	Export   c36Chain          `json:"export"`
}

type c36Step struct {
	ConfigErr string `json:"config_err,omitempty"`
	LoadErr   string `json:"load_err,omitempty"`
	Panic     string `json:"panic,omitempty"`
	PanicIn   string `json:"panic_in,omitempty"` // getconfig | loadconfig
}

type c36Result struct {
	ID      string       `json:"id"`
	Steps   []c36Step    `json:"steps"`
	Peers   []c36PeerOut `json:"peers"`
	Calls   []string     `json:"calls"`
	Anomaly []string     `json:"anomaly,omitempty"`
}

type c36Job struct {
	ID      string   `json:"id"`
	Configs []string `json:"configs"`
}

var c36Probes = []string{"10.0.0.0/8", "10.1.0.0/16", "10.1.1.0/24", "192.0.2.0/24", "192.0.2.128/25", "198.51.100.0/24", "0.0.0.0/0", "2001:db8::/32", "2001:db8:1::/48", "2001:db8:1:1::/64", "::/0"}

func c36ChainOut(c filter.Chain) c36Chain {
	out := c36Chain{Names: []string{}}
	for _, f := range c {
		out.Names = append(out.Names, f.Name())
	}
	if len(c) == 0 {
		// the server substitutes the reject-all chain for an empty one (newPeer and, checked by the server phase,
		// the in-place replacement)
		c = filter.NewDrainFilterChain()
	}
	h := sha1.New()
	for _, ps := range c36Probes {
		pfx, _ := bnet.PrefixFromString(ps)
		b := route.NewBGPPath()
		nh := bnet.IPv4FromOctets(192, 0, 2, 99)
		b.BGPPathA.NextHop = &nh
		b.BGPPathA.LocalPref = 77
		b.BGPPathA.MED = 5
		b.ASPath = types.NewASPath([]uint32{65001})
		b.ASPathLen = 1
		res, rej := c.Process(pfx, &route.Path{Type: route.BGPPathType, BGPPath: b})
		fmt.Fprintf(h, "%s rej=%v", ps, rej)
		if res != nil && res.BGPPath != nil && res.BGPPath.BGPPathA != nil {
			fmt.Fprintf(h, " lp=%d med=%d nh=%s as=%s", res.BGPPath.BGPPathA.LocalPref, res.BGPPath.BGPPathA.MED, res.BGPPath.BGPPathA.NextHop.String(), res.BGPPath.ASPath.String())
		}
		fmt.Fprintln(h)
	}
	out.Behaviour = fmt.Sprintf("%x", h.Sum(nil))[:16]
	return out
}

func c36AFOut(a *bgpserver.AddressFamilyConfig) *c36AF {
	if a == nil {
		return nil
	}
	return &c36AF{AddPathRecv: a.AddPathRecv, AddPathBestOnly: a.AddPathSend.BestOnly, AddPathMaxPaths: a.AddPathSend.MaxPaths, NextHopExtended: a.NextHopExtended}
}

func c36RunJob(job c36Job, dir string) (res c36Result) {
	res.ID = job.ID
	res.Peers = []c36PeerOut{}
	// what main() does at start-up
	vrfReg = vrf.NewVRFRegistry()
	fake := &c36Fake{peers: map[c36Key]*c36Peer{}}
	fake.defVRF = vrfReg.CreateVRFIfNotExists(vrf.DefaultVRFName, 0)
	bgpSrv = fake
	first := true
	for i, y := range job.Configs {
		var st c36Step
		path := filepath.Join(dir, fmt.Sprintf("cfg-%d.yml", i))
		if err := os.WriteFile(path, []byte(y), 0o644); err != nil {
			st.ConfigErr = "harness: " + err.Error()
			res.Steps = append(res.Steps, st)
			continue
		}
		func() {
			stage := "getconfig"
			defer func() {
				if p := recover(); p != nil {
					buf := make([]byte, 2500)
					buf = buf[:runtime.Stack(buf, false)]
					st.Panic = fmt.Sprintf("%v\n%s", p, buf)
					st.PanicIn = stage
				}
			}()
			cfg, err := config.GetConfig(path)
			if err != nil {
				st.ConfigErr = err.Error()
				return
			}
			if first {
				// the server is created once, from the start configuration
				fake.routerID = cfg.RoutingOptions.RouterIDUint32
				first = false
			}
			stage = "loadconfig"
			if err := loadConfig(cfg); err != nil {
				st.LoadErr = err.Error()
			}
		}()
		res.Steps = append(res.Steps, st)
	}
	for k, p := range fake.peers {
		c := p.cfg
		o := c36PeerOut{VRF: "<nil>", Addr: k.addr.String(), IPv4: c36AFOut(c.IPv4), IPv6: c36AFOut(c.IPv6), Import: c36ChainOut(p.imp), Export: c36ChainOut(p.exp)}
		if k.vrf != nil {
			o.VRF = k.vrf.Name()
		}
		la := "<nil>"
		if c.LocalAddress != nil {
			la = c.LocalAddress.String()
		}
		o.Settings = map[string]string{
			"admin_enabled": fmt.Sprint(c.AdminEnabled), "authentication_key": c.AuthenticationKey, "local_as": fmt.Sprint(c.LocalAS), "peer_as": fmt.Sprint(c.PeerAS),
			"local_address": la, "ttl": fmt.Sprint(c.TTL), "hold_time": c.HoldTime.String(), "keepalive": c.KeepAlive.String(), "router_id": fmt.Sprint(c.RouterID),
			"passive": fmt.Sprint(c.Passive), "route_server_client": fmt.Sprint(c.RouteServerClient), "route_reflector_client": fmt.Sprint(c.RouteReflectorClient),
			"cluster_id": fmt.Sprint(c.RouteReflectorClusterID), "advertise_ipv4_multiprotocol": fmt.Sprint(c.AdvertiseIPv4MultiProtocol),
			"ipv4_enabled": fmt.Sprint(c.IPv4 != nil), "ipv6_enabled": fmt.Sprint(c.IPv6 != nil),
		}
		res.Peers = append(res.Peers, o)
	}
	sort.Slice(res.Peers, func(i, j int) bool {
		return res.Peers[i].VRF+"/"+res.Peers[i].Addr < res.Peers[j].VRF+"/"+res.Peers[j].Addr
	})
	res.Calls = fake.calls
	if res.Calls == nil {
		res.Calls = []string{}
	}
	res.Anomaly = fake.anomaly
	return res
}

type c36NullLogger struct{}

func (c36NullLogger) Errorf(string, ...interface{})               {}
func (c36NullLogger) Infof(string, ...interface{})                {}
func (c36NullLogger) Debugf(string, ...interface{})               {}
func (c36NullLogger) Error(string)                                {}
func (c36NullLogger) Info(string)                                 {}
func (c36NullLogger) Debug(string)                                {}
func (l c36NullLogger) WithFields(log.Fields) log.LoggerInterface { return l }
func (l c36NullLogger) WithError(error) log.LoggerInterface       { return l }

// TestC36Driver: jobs from $C36_JOBS (JSON array), results to $C36_OUT (one JSON object per line).
func TestC36Driver(t *testing.T) {
	in, out := os.Getenv("C36_JOBS"), os.Getenv("C36_OUT")
	if in == "" || out == "" {
		t.Skip("driver for /verif property C36; run through ./check C36")
	}
	raw, err := os.ReadFile(in)
	if err != nil {
		t.Fatal(err)
	}
	var jobs []c36Job
	if err := json.Unmarshal(raw, &jobs); err != nil {
		t.Fatal(err)
	}
	log.SetLogger(c36NullLogger{})
	dir, err := os.MkdirTemp("", "c36drv")
	if err != nil {
		t.Fatal(err)
	}
	defer os.RemoveAll(dir)
	f, err := os.Create(out)
	if err != nil {
		t.Fatal(err)
	}
	defer f.Close()
	var sb strings.Builder
	for _, j := range jobs {
		r := c36RunJob(j, dir)
		b, _ := json.Marshal(r)
		sb.Write(b)
		sb.WriteByte('\n')
		if sb.Len() > 1<<20 {
			f.WriteString(sb.String())
			sb.Reset()
		}
	}
	f.WriteString(sb.String())
}
